"""Shared machinery of the history-world properties (C09, C10, C11, C12, C05, C04): the online,
state-aware operation generator (every choice from one PRNG; the concrete operations it
emitted are recorded, so a replay needs no generator), execute(), shrink().
"""
import copy
import hashlib

from simkit import kernel as K
from simkit import instr
from worlds import history_world as W
from worlds import hist_names as HN
from models import gen, tables as T, corpus, elem_model as EM

WORLD = 'history'
HAS_CLOCK = False
RERECORD_ON_SHRINK = False
MINIMISE_BUDGET_S = 45.0

COMPONENTS = {
    'real': ['hl7apy.core (Element, ElementList, ElementProxy, Message/Group/Segment/Field/Component/SubComponent)',
             'hl7apy.parser (child parsing on assignment)', 'hl7apy.factories / base_datatypes (leaf values)',
             'hl7apy.validation.Validator'],
    'stub': ['report files (simkit.simfs, C04 only)', 'wall clock (frozen)',
             'no scheduler and no network in this world: one actor, the fault is the library\'s own rejection'],
}

MIX = {
    #            write  del  copy  read  chain  bad  value  reattach  validate  deep
    'c09': dict(write=50, dele=18, copy=8, read=4, chain=8, bad=4, value=6, reattach=0, validate=0, attach=5, deep=12),
    'c10': dict(write=30, dele=14, copy=5, read=10, chain=8, bad=18, value=6, reattach=8, validate=1, attach=16, deep=10),
    'c11': dict(write=14, dele=6, copy=2, read=40, chain=26, bad=4, value=3, reattach=0, validate=5, attach=4, deep=20),
    'c12': dict(write=30, dele=8, copy=3, read=2, chain=4, bad=42, value=8, reattach=3, validate=0, attach=12, deep=8),
    'c05': dict(write=50, dele=10, copy=5, read=2, chain=8, bad=10, value=8, reattach=0, validate=0, attach=14, deep=12),
    'c04': dict(write=35, dele=10, copy=2, read=2, chain=4, bad=4, value=5, reattach=0, validate=38, attach=7, selfassign=9, c04extra=6, deep=8),
}

SEG_POOL = ['PID', 'PV1', 'NK1', 'OBX', 'EVN', 'MSA', 'ORC', 'OBR', 'AL1', 'DG1', 'IN1', 'NTE', 'PD1', 'QRD', 'ERR', 'QPD', 'RDT']
MSG_POOL = ['ADT_A01', 'ORU_R01', 'ADT_A02', 'ADT_A03', 'BAR_P01', 'DFT_P03', 'ACK', 'ADT_A06', 'ADT_A09', 'ADT_A17']


def setup():
    instr.instrument_hl7apy()      # only for the frozen clock; nothing is pre-empted in this world


def _usable_fields(version, seg):
    return [(i + 1, c) for i, c in enumerate(T.seg_fields(version, seg))
            if c[1] is not None and c[2][1] != 0 and c[1][2] not in ('WD', 'varies', None)]


def _usable_comps(version, fref):
    if fref is None or fref[0] != 'sequence' or not fref[1] or T.is_base(version, fref[2]):
        return []
    return [(i + 1, c) for i, c in enumerate(fref[1]) if c[1] is not None and c[2][1] != 0 and c[1][2] not in ('WD', None)]


def _usable_subs(version, cref):
    if cref is None or cref[0] != 'sequence' or not cref[1] or T.is_base(version, cref[2]):
        return []
    return [(i + 1, c) for i, c in enumerate(cref[1]) if c[1] is not None and c[2][1] != 0 and
            T.is_base(version, c[1][2])]


class Gen:
    def __init__(self, seed, mix, init, twin=False):
        self.rng = K.derive_rng(seed, 'ops')
        self.px_rng = K.derive_rng(seed, 'px')
        self.mix = MIX[mix]
        self.mixname = mix
        self.init = init
        self.version = init['version']
        self.kind = init['kind']
        self.level = init['level']
        self.twin = twin
        self.tok = gen.Tokens(start=(seed % 997) * 1000, prefix='v')
        self.ec = corpus._ec(init.get('ec', 0)) if init['kind'] == 'msg' else corpus._ec(0)
        self.side = None         # index of a side root usable for copies
        self.pending = []        # ops that must directly follow the one just emitted
        self.written = {}        # last text written per (segment path, field): reused to make equal siblings
        self.strict = (self.level == 1) or twin

    # ---------------------------------------------------------------- helpers
    def sp(self):
        return self.rng.choice([0, 0, 0, 1, 2, 2, 3])

    def ftext(self, fref, inv=0.0, ec=None):
        return gen.field_text(self.rng, self.version, fref, ec or self.ec, self.tok, self.rng.choice([0.2, 0.5]), inv)

    def segtext(self, name, ec=None, inv=0.0, fill=0.2):
        return gen.segment_text(self.rng, self.version, name, ec or self.ec, self.tok, fill=fill, invalid_p=inv)

    def inv(self):
        """probability of an invalid leaf in a value we build"""
        if self.mixname in ('c12', 'c05') and self.rng.random() < 0.25:
            return 0.5
        return 0.0

    def model(self, world):
        for s in world.suts:
            if s.alive and s.models[0] is not None:
                return s.models[0]
        return None

    def seg_targets(self, world):
        """[(path, seg_name, seg_node)] of segments the program can work on."""
        m = self.model(world)
        if self.kind == 'seg':
            return [([], self.init['name'], m)]
        if self.kind != 'msg' or m is None:
            return []
        out = []
        counts = {}

        def walk(node, path):
            local = {}
            for k in node.kids:
                r = local.get((k.kind, k.key), 0)
                local[(k.kind, k.key)] = r + 1
                if k.kind == 'seg':
                    if k.key != 'MSH' and T.seg_fields(self.version, k.key):
                        out.append((path + [['seg', k.key, r, self.rng.choice([0, 1])]], k.key, k))
                elif k.kind == 'grp':
                    walk(k, path + [['grp', k.key, r, 0]])
        walk(m, [])
        return out

    # ---------------------------------------------------------------- next op
    def next_op(self, world, step):
        rng = self.rng
        if self.pending:
            return self.spell_px(self.pending.pop(0))
        op = self.no_instances_under_profile(self._next_op(world, step))
        return self.spell_px(self.split_factory_add(world, op))

    def spell_px(self, op):
        # the first repetition of an existing child: through the proxy (s.pid_3.cx_1 = v) in a third of the
        # writes, by index (s.pid_3[0].cx_1 = v) otherwise
        if op is not None and op.get('k') in ('set', 'value', 'del') and op.get('p') and self.px_rng.random() < 0.35:
            op['px'] = True
        return op

    def no_instances_under_profile(self, op):
        if op is None or not self.init.get('profile'):
            return op
        if op.get('via') in ('inst', 'parent_kw', 'parent_attr') or 'inst' in (op.get('v') or {}) or op.get('k') in ('reattach',):
            return {'k': 'read', 'what': 'er7', 'p': []}
        return op

    def split_factory_add(self, world, op):
        """parent.add_x(name) followed by child.value = text are two API calls: two operations."""
        if op is None or op.get('k') != 'add' or op.get('via', 'factory') != 'factory' or op.get('text') is None:
            return op
        text = op.pop('text')
        t, key, r, sp = op['c']
        m = None
        for s_ in world.suts:
            if s_.alive and s_.models[op.get('root', 0)] is not None:
                m = s_.models[op.get('root', 0)]
                break
        n = 0
        if m is not None:
            parent = EM.resolve(m, [(a, b, c) for a, b, c, d in op['p']])
            n = len(parent.reps(t, key)) if parent is not None else 0
        follow = {'k': 'value', 'p': op['p'] + [[t, key, n, 0]], 'text': text, 'after_add': True}
        if op.get('bad'):
            follow['bad'] = op['bad']
        if op.get('root'):
            follow['root'] = op['root']
        self.pending.append(follow)
        return op

    def _next_op(self, world, step):
        rng = self.rng
        cats = list(self.mix.items())
        total = sum(w for _, w in cats if _ != 'deep')
        x = rng.random() * total
        cat = None
        for name, w in cats:
            if name == 'deep':
                continue
            if x < w:
                cat = name
                break
            x -= w
        cat = cat or 'write'
        for _ in range(6):
            op = getattr(self, 'op_' + cat)(world)
            if op is not None:
                return op
            cat = 'write'
        return self.op_read(world) or {'k': 'read', 'what': 'er7', 'p': []}

    # ---------------------------------------------------------------- field-level pieces
    def pick_field(self, seg_name, seg_node, existing_p=0.6):
        rng = self.rng
        fl = _usable_fields(self.version, seg_name)
        if seg_name.startswith('Z') or not fl:
            idx = rng.randrange(1, 6)
            reps = len(seg_node.reps('fld', idx)) if seg_node is not None else 0
            return idx, None, reps
        allf = T.seg_fields(self.version, seg_name)
        if allf and allf[-1][1] is not None and allf[-1][1][2] == 'varies' and rng.random() < 0.2:
            idx = len(allf) + rng.randrange(1, 4)        # allowed: the segment ends with a varies field
            reps = len(seg_node.reps('fld', idx)) if seg_node is not None else 0
            return idx, None, reps
        ex = sorted({f.key for f in seg_node.kids}) if seg_node is not None else []
        ex = [i for i in ex if any(i == j for j, _ in fl)]
        if ex and rng.random() < existing_p:
            idx = rng.choice(ex)
        else:
            idx = rng.choice(fl)[0]
        fref = [c for j, c in fl if j == idx][0][1]
        reps = len(seg_node.reps('fld', idx)) if seg_node is not None else 0
        return idx, fref, reps

    def field_value(self, fref, inv=0.0, ec=None):
        if fref is None:
            return gen.valid_literal('ST', self.tok, self.rng)
        return self.ftext(fref, inv, ec)

    # ---------------------------------------------------------------- categories
    def op_write(self, world):
        rng = self.rng
        if self.kind == 'msg' and rng.random() < 0.45:
            return self.op_write_segment(world)
        if self.kind == 'fld':
            return self.op_write_component(world, [], self.init['name'])
        targets = self.seg_targets(world)
        if not targets:
            return self.op_write_segment(world) if self.kind == 'msg' else None
        path, seg_name, seg_node = rng.choice(targets)
        if rng.random() * 100 < self.mix['deep']:
            return self.op_write_deep(world, path, seg_name, seg_node)
        idx, fref, reps = self.pick_field(seg_name, seg_node)
        card = HN.field_card(self.version, seg_name, idx)
        text = self.field_value(fref, self.inv())
        if self.mixname == 'c04' and not self.strict and fref is not None and T.is_base(self.version, fref[2]) and rng.random() < 0.15:
            # a base-datatype field given two components: TOLERANT keeps them, validate() must name the field
            text = text + self.ec['COMPONENT'] + gen.valid_literal('ST', self.tok, rng)
        wkey = (tuple(map(tuple, path)), idx)
        if reps and wkey in self.written and rng.random() < 0.12:
            text = self.written[wkey]        # siblings with equal content: identity must still tell them apart
        else:
            self.written[wkey] = text
        r = rng.random()
        step = ['fld', idx, 0, self.sp()]
        if r < 0.40:
            return {'k': 'set', 'p': path, 'c': step, 'v': {'text': text}, 'via': 'attr'}
        if r < 0.60:
            if reps and rng.random() < 0.2:
                step[2] = -rng.randrange(1, reps + 1)       # negative index: counted from the last repetition
                return {'k': 'set', 'p': path, 'c': step, 'v': {'text': text}, 'via': 'item'}
            rr = rng.randrange(0, reps + 1)
            if rr == reps and self.strict and card[1] != -1 and reps >= card[1] and self.mixname == 'c09':
                rr = max(0, reps - 1)
            step[2] = rr
            return {'k': 'set', 'p': path, 'c': step, 'v': {'text': text}, 'via': 'item'}
        if r < 0.70 and seg_node is not None and seg_node.kids:
            ci = rng.randrange(len(seg_node.kids))
            child = seg_node.kids[ci]
            if seg_node.key == 'MSH' and child.key in (1, 2):
                return None
            fr = HN.field_ref(self.version, seg_name, child.key)
            rep_i = [id(k) for k in seg_node.reps('fld', child.key)].index(id(child))
            return {'k': 'set', 'p': path, 'c': ['fld', child.key, rep_i, 0],
                    'v': {'text': self.field_value(fr, self.inv())}, 'via': 'childitem', 'ci': ci}
        if self.strict and self.mixname == 'c09' and card[1] != -1 and reps >= card[1]:
            return {'k': 'set', 'p': path, 'c': step, 'v': {'text': text}, 'via': 'attr'}
        if r < 0.85:
            return {'k': 'add', 'p': path, 'c': step, 'text': text, 'via': 'factory'}
        # an instance built on its own (parent-less elements parse with the standard delimiters)
        text = self.field_value(fref, self.inv(), corpus._ec(0))
        if rng.random() < 0.5:
            return {'k': 'add', 'p': path, 'c': step, 'text': text, 'via': 'inst'}
        return {'k': 'set', 'p': path, 'c': step, 'via': 'attr',
                'v': {'inst': {'cls': 'Field', 'name': '%s_%d' % (seg_name, idx), 'text': text}}}

    def op_write_deep(self, world, path, seg_name, seg_node):
        """component / subcomponent writes, through existing or not-yet-existing links"""
        rng = self.rng
        fl = [(i, c) for i, c in _usable_fields(self.version, seg_name) if _usable_comps(self.version, c[1])]
        if not fl:
            return None
        ex = [f.key for f in (seg_node.kids if seg_node is not None else [])]
        cand = [x for x in fl if x[0] in ex]
        idx, fe = rng.choice(cand) if cand and rng.random() < 0.6 else rng.choice(fl)
        fref = fe[1]
        reps = len(seg_node.reps('fld', idx)) if seg_node is not None else 0
        fr = rng.randrange(0, reps) if reps else 0
        comps = _usable_comps(self.version, fref)
        cidx, ce = rng.choice(comps)
        cref = ce[1]
        fstep = ['fld', idx, fr, self.sp()]
        subs = _usable_subs(self.version, cref)
        if subs and rng.random() < 0.45:
            sidx, se = rng.choice(subs)
            v, ok = gen.leaf(se[1][2], self.tok, rng, self.inv())
            return {'k': 'set', 'p': path + [fstep, ['cmp', cidx, 0, self.sp()]], 'c': ['sub', sidx, 0, self.sp()],
                    'v': {'text': v}, 'via': 'attr'}
        text = gen.component_text(rng, self.version, cref, self.ec, self.tok, 0.5, self.inv())
        return {'k': 'set', 'p': path + [fstep], 'c': ['cmp', cidx, 0, self.sp()], 'v': {'text': text}, 'via': 'attr'}

    def op_write_component(self, world, path, fname):
        rng = self.rng
        seg, idx = fname.rsplit('_', 1)
        fref = HN.field_ref(self.version, seg, int(idx))
        comps = _usable_comps(self.version, fref)
        if not comps:
            return None
        cidx, ce = rng.choice(comps)
        text = gen.component_text(rng, self.version, ce[1], self.ec, self.tok, 0.5, self.inv())
        m = self.model(world)
        have = m is not None and m.reps('cmp', cidx)
        if have or rng.random() < 0.7:      # (HL7 has no repeated components: add only when absent)
            return {'k': 'set', 'p': path, 'c': ['cmp', cidx, 0, rng.choice([0, 1, 2])], 'v': {'text': text}, 'via': 'attr'}
        return {'k': 'add', 'p': path, 'c': ['cmp', cidx, 0, 0], 'text': text, 'via': 'factory'}

    def msg_children(self, grp_ref):
        segs, grps = [], []
        for c in (grp_ref[1] if grp_ref is not None and grp_ref[1] else ()):
            if c[3] == 'SEG' and c[0] != 'MSH' and T.seg_fields(self.version, c[0]):
                segs.append(c)
            elif c[3] == 'GRP':
                grps.append(c)
        return segs, grps

    def op_write_segment(self, world):
        rng = self.rng
        m = self.model(world)
        if self.kind != 'msg':
            return None
        ref = T.message_ref(self.version, self.init['name'])
        segs, grps = self.msg_children(ref)
        path = []
        node = m
        # sometimes work inside a group (create it first if needed)
        if grps and rng.random() < 0.25:
            g = rng.choice(grps)
            have = node.reps('grp', g[0]) if node is not None else []
            if not have:
                return {'k': 'add', 'p': [], 'c': ['grp', g[0], 0, 0], 'via': 'factory'}
            gi = rng.randrange(len(have))
            path = [['grp', g[0], gi, rng.choice([0, 1])]]
            node = have[gi]
            segs, _ = self.msg_children(g[1])
        if not segs:
            return None
        zed = self.mixname in ('c05', 'c10') or (not self.strict)
        if zed and rng.random() < 0.08:
            name = rng.choice(['ZZ1', 'ZAB'])
            return {'k': 'add', 'p': path, 'c': ['seg', name, 0, 0], 'via': 'factory',
                    'text': None if rng.random() < 0.5 else '%s%s%s' % (name, self.ec['FIELD'], gen.valid_literal('ST', self.tok, rng))}
        c = rng.choice(segs)
        name, card = c[0], c[2]
        have = len(node.reps('seg', name)) if node is not None else 0
        if self.strict and self.mixname == 'c09' and card[1] != -1 and have >= card[1]:
            mode = 'replace'
        else:
            mode = rng.choice(['set', 'set', 'item', 'add', 'add', 'inst', 'childitem'])
        step = ['seg', name, 0, rng.choice([0, 1])]
        text = self.segtext(name, inv=self.inv())
        if mode in ('set', 'replace'):
            return {'k': 'set', 'p': path, 'c': step, 'v': {'text': text}, 'via': 'attr'}
        if mode == 'item':
            step[2] = rng.randrange(0, have + 1)
            return {'k': 'set', 'p': path, 'c': step, 'v': {'text': text}, 'via': 'item'}
        if mode == 'childitem' and node is not None and len(node.kids) > 1:
            ci = rng.randrange(1 if not path else 0, len(node.kids))
            child = node.kids[ci]
            if child.kind != 'seg' or child.key == 'MSH' or not T.seg_fields(self.version, child.key):
                return None
            rep_i = [id(k) for k in node.reps('seg', child.key)].index(id(child))
            return {'k': 'set', 'p': path, 'c': ['seg', child.key, rep_i, 0],
                    'v': {'text': self.segtext(child.key, inv=self.inv())}, 'via': 'childitem', 'ci': ci}
        if mode == 'add':
            return {'k': 'add', 'p': path, 'c': step, 'via': 'factory',
                    'text': text if rng.random() < 0.7 else None}
        text = self.segtext(name, ec=corpus._ec(0), inv=self.inv())
        return {'k': 'add', 'p': path, 'c': step, 'via': 'inst', 'text': text}

    def op_dele(self, world):
        rng = self.rng
        m = self.model(world)
        if m is None:
            return None
        if self.kind == 'msg' and rng.random() < 0.4:
            kids = [(i, k) for i, k in enumerate(m.kids) if not (k.kind == 'seg' and k.key == 'MSH')]
            if not kids:
                return None
            ci, child = rng.choice(kids)
            rep_i = [id(k) for k in m.reps(child.kind, child.key)].index(id(child))
            via = rng.choice(['attr', 'item', 'childitem', 'pop', 'remove'])
            step = [child.kind, child.key, rep_i if via != 'attr' else 0, rng.choice([0, 1])]
            op = {'k': 'del', 'p': [], 'via': via}
            if via in ('attr', 'item'):
                op['c'] = step
            else:
                op['ci'] = ci
            return op
        targets = self.seg_targets(world)
        if not targets:
            return None
        path, seg_name, node = rng.choice(targets)
        if node is None or not node.kids:
            return None
        ci = rng.randrange(len(node.kids))
        child = node.kids[ci]
        if node.key == 'MSH':
            return None
        rep_i = [id(k) for k in node.reps('fld', child.key)].index(id(child))
        via = rng.choice(['attr', 'attr', 'item', 'item', 'childitem', 'pop', 'remove'])
        op = {'k': 'del', 'p': path, 'via': via}
        if via in ('attr', 'item'):
            op['c'] = ['fld', child.key, rep_i if via == 'item' else 0, self.sp()]
        else:
            op['ci'] = ci
        return op

    def ensure_side(self, world, kind, name):
        """A second root of the same kind to copy from / re-attach from."""
        for s in world.suts:
            if not s.alive:
                continue
            for ri in range(1, len(s.meta)):
                if s.meta[ri]['kind'] == kind and s.meta[ri]['name'] == name and \
                        s.meta[ri]['version'] == self.version and s.meta[ri].get('level') == s.level:
                    return ri, None
            break
        spec = {'kind': kind, 'name': name, 'version': self.version}
        if kind == 'seg':
            spec['text'] = gen.segment_text(self.rng, self.version, name, corpus._ec(0), self.tok, fill=0.5)
        return None, {'k': 'mkroot', 'spec': spec}

    def op_copy(self, world):
        rng = self.rng
        targets = self.seg_targets(world)
        if not targets:
            return None
        path, seg_name, node = rng.choice(targets)
        if rng.random() < 0.3:
            # a copy taken from the element itself: s.pid_3[i] = s.pid_3 copies the first repetition by
            # value over the i-th (or appends it), m.nk1[i] = m.nk1 likewise for segments
            m = self.model(world)
            if self.kind == 'msg' and m is not None and rng.random() < 0.35:
                segs = [k for k in m.kids if k.kind == 'seg' and k.key != 'MSH']
                segs = [k for k in segs if not EM.has_empty(k)]     # (blank children have no text: out of regime)
                if segs:
                    src = rng.choice(segs)
                    n = len(m.reps('seg', src.key))
                    return {'k': 'set', 'p': [], 'c': ['seg', src.key, rng.randrange(0, n + 1), 0], 'via': 'item',
                            'v': {'copy': [0, [], ['seg', src.key, 0, 0]]}}
            if node is not None and node.kids and node.key != 'MSH' and not EM.has_empty(node):
                src = rng.choice(node.kids)
                n = len(node.reps('fld', src.key))
                return {'k': 'set', 'p': path, 'c': ['fld', src.key, rng.randrange(0, n + 1), self.sp()], 'via': 'item',
                        'v': {'copy': [0, path, ['fld', src.key, 0, self.sp()]]}}
        ri, mk = self.ensure_side(world, 'seg', seg_name)
        if mk is not None:
            return mk
        s0 = [s for s in world.suts if s.alive][0]
        side = s0.models[ri]
        if side is None or not side.kids:
            return None
        src = rng.choice(side.kids)
        step = ['fld', src.key, 0, self.sp()]
        card = HN.field_card(self.version, seg_name, src.key)
        return {'k': 'set', 'p': path, 'c': step, 'via': 'attr',
                'v': {'copy': [ri, [], ['fld', src.key, 0, self.sp()]]}}

    def op_value(self, world):
        rng = self.rng
        targets = self.seg_targets(world)
        if self.kind == 'fld':
            fref = HN.field_ref(self.version, *self._fld_root())
            return {'k': 'value', 'p': [], 'text': self.field_value(fref, self.inv())}
        if not targets:
            return None
        path, seg_name, node = rng.choice(targets)
        if rng.random() < 0.45:
            return {'k': 'value', 'p': path, 'text': self.segtext(seg_name, inv=self.inv(), fill=0.3)}
        idx, fref, reps = self.pick_field(seg_name, node, 0.8)
        r = rng.randrange(0, reps) if reps else 0
        have = node.reps('fld', idx) if node is not None else []
        tag = have[r].tag if r < len(have) else None
        if tag and tag.get('datatype') and fref is not None:
            # the repetition was built with an overridden datatype: a text that fits that datatype
            st = T.datatype_struct(self.version, tag['datatype'])
            if not st:
                return {'k': 'value', 'p': path + [['fld', idx, r, self.sp()]], 'text': gen.valid_literal('ST', self.tok, rng)}
            fref = ('sequence', st, tag['datatype'], None, None, -1)
        return {'k': 'value', 'p': path + [['fld', idx, r, self.sp()]], 'text': self.field_value(fref, self.inv())}

    def _fld_root(self):
        seg, idx = self.init['name'].rsplit('_', 1)
        return seg, int(idx)

    def op_read(self, world):
        rng = self.rng
        r = rng.random()
        if r < 0.5:
            return self.op_chain(world, read_only=True)
        what = rng.choice(['er7', 'er7_trailing', 'validate', 'len', 'iter', 'repr', 'index', 'contains'])
        path = []
        targets = self.seg_targets(world)
        if targets and rng.random() < 0.5:
            path = rng.choice(targets)[0]
        return {'k': 'read', 'what': what, 'p': path, 'times': rng.choice([1, 1, 2, 3])}

    def op_chain(self, world, read_only=False):
        """read chains of depth 1-4 over existing and non-existing children; when not read_only,
        a write at the end of such a chain"""
        rng = self.rng
        if not read_only and rng.random() < 0.85:
            # write at the end of a chain that may not exist yet
            if self.kind == 'msg':
                ref = T.message_ref(self.version, self.init['name'])
                segs, grps = self.msg_children(ref)
                if not segs:
                    return None
                c = rng.choice(segs)
                if rng.random() < 0.1 and (not self.strict or self.mixname in ('c05', 'c11')):
                    c = (rng.choice(['ZZ1', 'ZIN']),)        # a chain through a Z segment that does not exist yet
                m = self.model(world)
                have = len(m.reps('seg', c[0])) if m is not None else 0
                path = [['seg', c[0], 0, rng.choice([0, 1])]]
                node = m.reps('seg', c[0])[0] if have else None
                if c[0].startswith('Z'):
                    return self._chain_field(path, c[0], node)
                return self.op_write_deep(world, path, c[0], node) if rng.random() < 0.6 else self._chain_field(path, c[0], node)
            targets = self.seg_targets(world)
            if not targets:
                return None
            path, seg_name, node = rng.choice(targets)
            return self.op_write_deep(world, path, seg_name, node)
        # pure read
        path = []
        if self.kind == 'msg':
            ref = T.message_ref(self.version, self.init['name'])
            segs, grps = self.msg_children(ref)
            if grps and rng.random() < 0.2:
                g = rng.choice(grps)
                path.append(['grp', g[0], 0, rng.choice([0, 1])])
                segs, _ = self.msg_children(g[1])
            if not segs:
                return None
            c = rng.choice(segs)
            path.append(['seg', c[0], 0, rng.choice([0, 1])])
            seg_name = c[0]
        elif self.kind == 'seg':
            seg_name = self.init['name']
        else:
            seg_name = None
        depth = rng.choice([1, 2, 2, 3, 3])
        if seg_name is not None and not seg_name.startswith('Z'):
            fl = _usable_fields(self.version, seg_name)
            if fl and depth >= 1 and (self.kind != 'msg' or rng.random() < 0.8):
                idx, fe = rng.choice(fl)
                path.append(['fld', idx, 0, self.sp()])
                comps = _usable_comps(self.version, fe[1])
                if comps and depth >= 2:
                    cidx, ce = rng.choice(comps)
                    path.append(['cmp', cidx, 0, self.sp()])
                    subs = _usable_subs(self.version, ce[1])
                    if subs and depth >= 3:
                        sidx, se = rng.choice(subs)
                        path.append(['sub', sidx, 0, self.sp()])
        if not path:
            return None
        if rng.random() < 0.35 and not any(st[0] == 'grp' for st in path):
            # read through a child that does not exist, then add that child by add_x(), then write through
            # the same path: the write must land in the child just added (not in what the read left behind)
            m = self.model(world)
            mp = [(t, k_, r) for t, k_, r, _ in path]
            kinds_ = [st[0] for st in path]
            if m is not None and 'fld' in kinds_:
                fpos = kinds_.index('fld')
                segnode = EM.resolve(m, mp[:fpos])
                fld_absent = segnode is not None and EM.resolve(m, mp[:fpos + 1]) is None
                if fld_absent and segnode.key != 'MSH' and rng.random() < 0.4:
                    # ... or by an assignment of that very child that is refused (another version / level):
                    # what the read left behind must not become a child on the way
                    fidx = path[fpos][1]
                    fref_ = HN.field_ref(self.version, segnode.key, fidx)
                    other_version = rng.choice([v for v in T.VERSIONS if v != self.version])
                    kw = {'version': other_version} if (self.twin or rng.random() < 0.5) else {'level': 2 if self.level == 1 else 1}
                    if fref_ is not None and ('level' in kw or HN.field_ref(other_version, segnode.key, fidx)):
                        inst = {'cls': 'Field', 'name': '%s_%d' % (segnode.key, fidx), 'text': self.field_value(fref_, 0, corpus._ec(0))}
                        inst.update(kw)
                        self.pending.append({'k': 'set', 'p': path[:fpos], 'c': ['fld', fidx, 0, self.sp()], 'via': 'attr',
                                             'v': {'inst': inst}, 'bad': 'version_mismatch' if 'version' in kw else 'level_mismatch'})
                elif fld_absent and len(path) > fpos + 1 and segnode.key != 'MSH':
                    cstep = path[fpos + 1]
                    comps = dict(_usable_comps(self.version, HN.field_ref(self.version, segnode.key, path[fpos][1])))
                    if cstep[1] in comps:
                        self.pending.append({'k': 'add', 'p': path[:fpos], 'c': ['fld', path[fpos][1], 0, 0], 'via': 'factory'})
                        self.pending.append({'k': 'set', 'p': path[:fpos + 1], 'c': ['cmp', cstep[1], 0, self.sp()], 'via': 'attr', 'px': True,
                                             'v': {'text': gen.component_text(rng, self.version, comps[cstep[1]][1], self.ec, self.tok, 0.4, 0.0)}})
                elif segnode is None and fpos == 1 and self.kind == 'msg' and not path[0][1].startswith('Z'):
                    fref = HN.field_ref(self.version, path[0][1], path[1][1])
                    self.pending.append({'k': 'add', 'p': [], 'c': ['seg', path[0][1], 0, 0], 'via': 'factory', 'text': None})
                    self.pending.append({'k': 'set', 'p': path[:1], 'c': ['fld', path[1][1], 0, self.sp()], 'via': 'attr', 'px': True,
                                         'v': {'text': self.field_value(fref)}})
        return {'k': 'read', 'what': 'chain', 'p': path, 'index': rng.random() < 0.3,
                'tail': rng.choice(['repr', 'len', 'iter', 'value', 'er7', 'in', 'repr']), 'times': rng.choice([1, 2, 3])}

    def _chain_field(self, path, seg_name, node):
        idx, fref, reps = self.pick_field(seg_name, node, 0.3)
        return {'k': 'set', 'p': path, 'c': ['fld', idx, 0, self.sp()], 'v': {'text': self.field_value(fref)}, 'via': 'attr'}

    def op_attach(self, world):
        """the other ways an element gets (or loses) a parent: constructor parent=, child.parent = p,
        child.parent = None, assigning an element that is attached elsewhere, assigning a base datatype
        object, and writing through a handle obtained earlier (possibly stale by now)"""
        rng = self.rng
        targets = self.seg_targets(world)
        if not targets:
            return None
        path, seg_name, node = rng.choice(targets)
        idx, fref, reps = self.pick_field(seg_name, node, 0.6)
        card = HN.field_card(self.version, seg_name, idx)
        step = ['fld', idx, 0, 0]
        fname = '%s_%d' % (seg_name, idx)
        other_level = 2 if self.level == 1 else 1
        kind = rng.choice(['parent_kw', 'parent_kw', 'parent_attr', 'parent_attr', 'detach', 'elem', 'elem', 'bdt', 'bdt',
                           'bdt', 'hold', 'hold', 'readd', 'value_bdt', 'value_bdt', 'dt_assign', 'dt_assign'])
        if self.mixname == 'c09':      # C09 speaks of assignments, additions, deletions and copies only
            kind = rng.choice(['bdt', 'bdt', 'parent_attr', 'elem', 'elem', 'regrab', 'hold', 'hold'])
        elif rng.random() < 0.1:
            kind = 'regrab'
        if kind == 'regrab':
            # keep a child, delete it, add it again later (through add() or through the parent setter)
            if node is None or not node.kids or node.key == 'MSH':
                return None
            ci = rng.randrange(len(node.kids))
            child = node.kids[ci]
            rep_i = [id(k) for k in node.reps('fld', child.key)].index(id(child))
            reg = rng.randrange(100, 200)
            self.pending.append({'k': 'del', 'p': path, 'via': rng.choice(['childitem', 'pop', 'remove']), 'ci': ci})
            target = {'p': path}
            if rng.random() < 0.4:
                # ... into another element: the deleted child still remembers its former parent
                ri, mk = self.ensure_side(world, 'seg', seg_name)
                if mk is None:
                    target = {'p': [], 'root': ri}
            op2 = {'k': 'attach_held', 'reg': reg, 'via': rng.choice(['add', 'parent_attr'])}
            op2.update(target)
            self.pending.append(op2)
            return {'k': 'grab', 'p': path + [['fld', child.key, rep_i, 0]], 'reg': reg}
        strict_full = self.strict and card[1] != -1 and reps >= card[1]
        if kind in ('parent_kw', 'parent_attr'):
            op = {'k': 'add', 'p': path, 'c': step, 'via': kind}
            if kind == 'parent_attr':
                op['text'] = self.field_value(fref, self.inv(), corpus._ec(0))
            r = rng.random()
            if r < 0.25:
                # a TOLERANT child for every twin / the other level for a single element: STRICT must refuse
                op['level'] = 2 if self.twin else other_level
                op['bad'] = 'level_mismatch'
            elif r < 0.40 and fref is not None:
                op['datatype'] = rng.choice([d for d in ('HD', 'CX', 'ST', 'NM', 'CE', 'XPN') if d != fref[2]])
                op['bad'] = 'datatype_override'
                st = T.datatype_struct(self.version, op['datatype'])
                if kind == 'parent_attr':
                    # the value must fit the datatype the field is built with
                    if st:
                        # ... and stay within the positions the field's declared datatype defines: a later copy of
                        # this field travels through text and is read back under the declared datatype, and what the
                        # parser does with surplus components is out of regime here (as for every other text written)
                        declared = T.datatype_struct(self.version, fref[2])
                        st = st[:max(1, len(declared) if declared else 1)]
                        op['text'] = self.field_value(('sequence', st, op['datatype'], None, None, -1), 0, corpus._ec(0))
                    else:
                        op['text'] = gen.valid_literal('ST', self.tok, rng)
            elif strict_full:
                op['bad'] = 'cardinality'
            elif self.mixname == 'c09' and self.strict:
                return None
            if self.mixname == 'c04' and op.get('datatype'):
                # a field built with another datatype: the verdict is due right away
                self.pending.append({'k': 'validate', 'variant': 'errors', 'p': []})
            return op
        if kind == 'readd':
            # add() of an element that already is a child of that very parent
            if node is None or not node.kids or node.key == 'MSH':
                return None
            child = rng.choice(node.kids)
            rep_i = [id(k) for k in node.reps('fld', child.key)].index(id(child))
            return {'k': 'reattach', 'p': path, 'src': [0, path + [['fld', child.key, rep_i, 0]]], 'bad': 'readd'}
        if kind == 'value_bdt':
            # element.value = <BaseDataType object>, of the field's own datatype or of another one
            fl = [(i, c) for i, c in _usable_fields(self.version, seg_name) if T.is_base(self.version, c[1][2])]
            if not fl:
                return None
            ex = {f.key for f in node.kids} if node is not None else set()
            cand = [x for x in fl if x[0] in ex]
            i, c = rng.choice(cand) if cand and rng.random() < 0.8 else rng.choice(fl)
            dt = c[1][2]
            other = rng.random() < 0.5
            use = rng.choice([d for d in ('NM', 'ST', 'SI', 'ID', 'DT') if d != dt and T.is_base(self.version, d)] or [dt]) if other else dt
            v, ok = gen.leaf(use, self.tok, rng, 0.0)
            op = {'k': 'value', 'p': path + [['fld', i, 0, 0]], 'bdt': [use, v], 'text': v}
            if other:
                op['bad'] = 'wrong_bdt_value'
            return op
        if kind == 'dt_assign':
            # field.datatype = X on a freshly added (empty) field, then a value: STRICT must refuse the override
            allf = [(j + 1, c) for j, c in enumerate(T.seg_fields(self.version, seg_name)) if c[1] is not None and c[2][1] != 0]
            if not allf:
                return None
            i, c = rng.choice(allf)
            cur = c[1][2]
            have = len(node.reps('fld', i)) if node is not None else 0
            if self.strict and c[2][1] != -1 and have >= c[2][1]:
                return None
            comps_ = _usable_comps(self.version, c[1])
            if comps_ and rng.random() < 0.4:
                # ... or component.datatype = <complex datatype> on a freshly added, empty, named component:
                # this element changes, the library's description of every other CX_1 does not
                ci, ce = rng.choice(comps_)
                ndt = rng.choice([d for d in ('CWE', 'CX', 'HD', 'CE', 'XPN', 'EI') if d != ce[1][2] and T.datatype_struct(self.version, d)] or ['HD'])
                self.pending.append({'k': 'add', 'p': path + [['fld', i, have, 0]], 'c': ['cmp', ci, 0, 0], 'via': 'factory'})
                self.pending.append({'k': 'datatype', 'p': path + [['fld', i, have, 0], ['cmp', ci, 0, 0]], 'dt': ndt, 'bad': 'datatype_override'})
                if self.mixname == 'c04':
                    self.pending.append({'k': 'validate', 'variant': 'errors', 'p': []})
                return {'k': 'add', 'p': path, 'c': ['fld', i, 0, 0], 'via': 'factory'}
            ndt = rng.choice([d for d in ('NM', 'ST', 'DT', 'ID', 'SI') if d != cur and T.is_base(self.version, d)] or ['ST'])
            v, ok = gen.leaf(ndt, self.tok, rng, 0.0)
            self.pending.append({'k': 'datatype', 'p': path + [['fld', i, have, 0]], 'dt': ndt, 'bad': 'datatype_override'})
            self.pending.append({'k': 'value', 'p': path + [['fld', i, have, 0]], 'text': v, 'bad': 'datatype_override'})
            return {'k': 'add', 'p': path, 'c': ['fld', i, 0, 0], 'via': 'factory'}
        if kind == 'detach':
            if node is None or not node.kids or node.key == 'MSH':
                return None
            child = rng.choice(node.kids)
            rep_i = [id(k) for k in node.reps('fld', child.key)].index(id(child))
            return {'k': 'detach', 'p': path + [['fld', child.key, rep_i, 0]]}
        if kind == 'elem':
            if node is None or len(node.kids) < 1:
                return None
            src = rng.choice(node.kids)
            src_i = [id(k) for k in node.reps('fld', src.key)].index(id(src))
            reps_same = node.reps('fld', src.key)
            if rng.random() < (0.7 if len(reps_same) > 1 else 0.35):
                # over another repetition, or into the slot just past the last one (s.pid_3[1] = s.pid_3[0]
                # with one repetition: the element is a child already, nothing may change)
                dst_i = rng.choice([i for i in range(len(reps_same) + 1) if i != src_i])
                return {'k': 'set', 'p': path, 'c': ['fld', src.key, dst_i, 0], 'via': 'item', 'bad': 'elem_assign',
                        'v': {'elem': [0, path + [['fld', src.key, src_i, 0]]]}}
            ri, mk = self.ensure_side(world, 'seg', seg_name)
            if mk is not None:
                return mk
            s0 = [s for s in world.suts if s.alive][0]
            side = s0.models[ri]
            if side is None or not side.kids:
                return None
            sk = rng.choice(side.kids)
            sk_i = [id(k) for k in side.reps('fld', sk.key)].index(id(sk))
            return {'k': 'set', 'p': path, 'c': ['fld', sk.key, 0, 0], 'via': 'attr', 'bad': 'elem_assign',
                    'v': {'elem': [ri, [['fld', sk.key, sk_i, 0]]]}}
        if kind == 'bdt':
            fl = [(i, c) for i, c in _usable_fields(self.version, seg_name) if T.is_base(self.version, c[1][2])]
            if not fl:
                return None
            ex = {f.key for f in node.kids} if node is not None else set()
            cand = [x for x in fl if x[0] in ex]
            i, c = rng.choice(cand) if cand and rng.random() < 0.7 else rng.choice(fl)
            dt = c[1][2]
            v, ok = gen.leaf(dt, self.tok, rng, self.inv())
            return {'k': 'set', 'p': path, 'c': ['fld', i, 0, self.sp()], 'via': 'attr', 'v': {'bdt': [dt, v]}}
        # hold: keep a handle obtained by traversal, write through it later (maybe after the same child was added)
        if reps and rng.random() < 0.6:
            # ... preferably through a field that does not exist yet: only then is the handle a lazily
            # created element that can go stale
            idx, fref, reps = self.pick_field(seg_name, node, 0.0)
            step = ['fld', idx, 0, 0]
        if self.kind == 'msg' and rng.random() < 0.4:
            # ... through a segment that does not exist yet either
            m = self.model(world)
            ref = T.message_ref(self.version, self.init['name'])
            segs, grps = self.msg_children(ref)
            missing = [c for c in segs if m is not None and not m.reps('seg', c[0])]
            if missing:
                c = rng.choice(missing)
                path, seg_name, node = [['seg', c[0], 0, rng.choice([0, 1])]], c[0], None
                idx, fref, reps = self.pick_field(seg_name, node, 0.6)
                step = ['fld', idx, 0, 0]
                comps = _usable_comps(self.version, fref) if fref is not None else []
        if any(st[2] != 0 for st in path):
            return None        # a chain of plain attribute reads always addresses the first repetition
        comps = _usable_comps(self.version, fref) if fref is not None else []
        hpath = path + [['fld', idx, 0, 0]]
        if comps:
            cidx, ce = rng.choice(comps)
            hpath = hpath + [['cmp', cidx, 0, 0]]
            text = gen.component_text(rng, self.version, ce[1], self.ec, self.tok, 0.4, self.inv())
        elif fref is not None and T.is_base(self.version, fref[2]):
            hpath = hpath + [['cmp', 1, 0, 0]]
            text, ok = gen.leaf(fref[2], self.tok, rng, self.inv())
        else:
            text = self.field_value(fref)
        reg = rng.randrange(100)
        follow = []
        if len(comps) > 1 and reps <= 1 and node is not None and node.key != 'MSH' and rng.random() < 0.3:
            # the element had a child of that name and lost it; two handles to two components of the (absent)
            # child are read, then written through one after the other: one child with both components
            fpath = path + [['fld', idx, 0, 0]]
            (c1, e1), (c2, e2) = rng.sample(comps, 2)
            seq = []
            if reps == 0:
                seq.append({'k': 'set', 'p': path, 'c': ['fld', idx, 0, self.sp()], 'v': {'text': self.field_value(fref)}, 'via': 'attr'})
            seq.append({'k': 'del', 'p': path, 'c': ['fld', idx, 0, self.sp()], 'via': rng.choice(['attr', 'item'])})
            r1, r2 = 60 + rng.randrange(20), 80 + rng.randrange(20)
            seq.append({'k': 'hold', 'p': fpath + [['cmp', c1, 0, 0]], 'reg': r1})
            seq.append({'k': 'hold', 'p': fpath + [['cmp', c2, 0, 0]], 'reg': r2})
            for r_, c_, e_ in ((r1, c1, e1), (r2, c2, e2)):
                seq.append({'k': 'held_value', 'reg': r_, 'hp': fpath + [['cmp', c_, 0, 0]],
                            'text': gen.component_text(rng, self.version, e_[1], self.ec, self.tok, 0.4, 0.0)})
            self.pending.extend(seq[1:])
            return seq[0]
        if comps and rng.random() < 0.5 and not (self.strict and reps):
            # read a handle, write a *sibling* field through the same (maybe missing) segment, then write
            # through the handle: everything must land in the one segment
            hp = path + [['fld', idx, 0, 0]]
            oidx, ofref, oreps = self.pick_field(seg_name, node, 0.2)
            if oidx != idx and not (self.strict and oreps):
                self.pending.append({'k': 'set', 'p': path, 'c': ['fld', oidx, 0, self.sp()], 'v': {'text': self.field_value(ofref)}, 'via': 'attr'})
            ctext = gen.component_text(rng, self.version, ce[1], self.ec, self.tok, 0.4, 0.0)
            self.pending.append({'k': 'held_set', 'reg': reg, 'hp': hp, 'c': ['cmp', cidx, 0, self.sp()], 'text': ctext})
            return {'k': 'hold', 'p': hp, 'reg': reg}
        if rng.random() < 0.6 and node is not None:       # (add_x() on a segment that exists only by traversal: out of regime)
            follow.append({'k': 'add', 'p': path, 'c': step, 'via': 'factory'})
            follow.append({'k': 'value', 'p': path + [['fld', idx, reps, 0]], 'text': self.field_value(fref), 'after_add': True})
        follow.append({'k': 'held_value', 'reg': reg, 'text': text, 'bad': 'stale_handle'})
        if follow[0]['k'] == 'add' and reps == 0 and len(comps) > 1 and rng.random() < 0.6:
            # ... and after the (maybe refused) write through the stale handle the field is deleted and
            # another component written through the path: nothing of a refused write may come back
            follow.append({'k': 'del', 'p': path, 'c': ['fld', idx, 0, 0], 'via': rng.choice(['item', 'attr'])})
            c2, ce2 = rng.choice([c for c in comps if c[0] != cidx])
            follow.append({'k': 'set', 'p': path + [['fld', idx, 0, 0]], 'c': ['cmp', c2, 0, self.sp()], 'via': 'attr',
                           'v': {'text': gen.component_text(rng, self.version, ce2[1], self.ec, self.tok, 0.4, 0.0)}})
        self.pending.extend(follow)
        return {'k': 'hold', 'p': hpath, 'reg': reg}

    def op_c04extra(self, world):
        """two C04-specific histories: an unknown (unnamed) field left in a segment -- also in segments
        that end with a varies field --, and a Z segment that is added and removed again (the element is
        back to what it was: so must be the verdict)"""
        rng = self.rng
        if self.strict:
            return None
        if rng.random() < 0.5:
            targets = self.seg_targets(world)
            if not targets:
                return None
            path, seg_name, node = rng.choice(targets)
            self.pending.append({'k': 'validate', 'variant': 'errors', 'p': []})
            return {'k': 'add_unknown', 'p': path, 'text': gen.valid_literal('ST', self.tok, rng), 'bad': 'unknown_element'}
        if self.kind != 'msg':
            return None
        m = self.model(world)
        if m is None:
            return None
        name = rng.choice(['ZZ1', 'ZAB', 'ZXY'])
        n = len(m.kids)
        self.pending.append({'k': 'del', 'p': [], 'via': rng.choice(['attr', 'item', 'childitem', 'pop', 'remove']),
                             'c': ['seg', name, 0, 0], 'ci': n})
        self.pending.append({'k': 'validate', 'variant': 'errors', 'p': []})
        return {'k': 'add', 'p': [], 'c': ['seg', name, 0, 0], 'via': 'factory'}

    def op_selfassign(self, world):
        rng = self.rng
        if self.kind != 'msg':
            return None
        if self.init.get('profile'):
            path, name = rng.choice([([], 'MSA'), ([], 'QAK'), ([], 'QPD'),
                                     ([['grp', 'RSP_K21_QUERY_RESPONSE', 0, 0]], 'PID')])
            return {'k': 'selfassign', 'p': path, 'c': ['seg', name, 0, rng.choice([0, 1])]}
        m = self.model(world)
        if m is None:
            return None
        segs = [(i, k_) for i, k_ in enumerate(m.kids) if k_.kind == 'seg' and k_.key != 'MSH' and
                T.seg_fields(self.version, k_.key) and k_.kids]
        if not segs:
            return None
        i, child = rng.choice(segs)
        rep_i = [id(k_) for k_ in m.reps('seg', child.key)].index(id(child))
        return {'k': 'selfassign', 'p': [], 'c': ['seg', child.key, rep_i, rng.choice([0, 1])]}

    def op_reattach(self, world):
        rng = self.rng
        targets = self.seg_targets(world)
        if not targets:
            return None
        path, seg_name, node = rng.choice(targets)
        ri, mk = self.ensure_side(world, 'seg', seg_name)
        if mk is not None:
            return mk
        s0 = [s for s in world.suts if s.alive][0]
        side = s0.models[ri]
        if rng.random() < 0.5 and side is not None and side.kids:
            src = rng.choice(side.kids)
            rep_i = [id(k) for k in side.reps('fld', src.key)].index(id(src))
            return {'k': 'reattach', 'p': path, 'src': [ri, [['fld', src.key, rep_i, 0]]], 'bad': 'reattach'}
        if node is not None and node.kids:
            src = rng.choice(node.kids)
            rep_i = [id(k) for k in node.reps('fld', src.key)].index(id(src))
            return {'k': 'reattach', 'root': ri, 'p': [], 'src': [0, path + [['fld', src.key, rep_i, 0]]], 'bad': 'reattach'}
        return None

    def op_validate(self, world):
        rng = self.rng
        variant = rng.choice(['errors', 'errors', 'raise', 'report_path', 'report_path', 'report_obj', 'report_obj'])
        if self.kind == 'msg' and rng.random() < 0.1:
            return {'k': 'validate', 'variant': 'force_parse', 'p': [], 'find_groups': rng.random() < 0.5}
        op = {'k': 'validate', 'variant': variant, 'p': []}
        if variant.startswith('report'):
            op['form'] = rng.choice(['errors', 'errors', 'raise'])
            if variant == 'report_path' and rng.random() < 0.5:
                op['stale'] = True       # the path already holds an older, longer report
            r = rng.random()
            if r < 0.45:
                import errno
                kind = rng.choice(['open', 'write', 'write', 'close']) if variant == 'report_path' else rng.choice(['write', 'write'])
                if kind == 'open':
                    op['fault'] = {'open': rng.choice([errno.ENOENT, errno.EACCES, errno.ENOSPC])}
                elif kind == 'write':
                    op['fault'] = {'write': [rng.choice([0, 0, 1, 2]), rng.choice([errno.ENOSPC, errno.EIO]),
                                             rng.choice(['none', 'short'])]}
                else:
                    op['fault'] = {'close': rng.choice([errno.EIO, errno.ENOSPC])}
        return op

    def op_deep_value_rejected(self, world):
        """<chain of not yet existing children>.value = <something the leaf refuses></chain>"""
        rng = self.rng
        m = self.model(world)
        if self.kind == 'msg':
            ref = T.message_ref(self.version, self.init['name'])
            segs, grps = self.msg_children(ref)
            if not segs:
                return None
            c = rng.choice(segs)
            path = [['seg', c[0], 0, rng.choice([0, 1])]]
            seg_name = c[0]
            node = m.reps('seg', c[0])[0] if m is not None and m.reps('seg', c[0]) else None
        elif self.kind == 'seg':
            path, seg_name, node = [], self.init['name'], m
        else:
            return None
        fl = [(i, c) for i, c in _usable_fields(self.version, seg_name) if _usable_comps(self.version, c[1])]
        if not fl:
            return None
        i, fe = rng.choice(fl)
        comps = _usable_comps(self.version, fe[1])
        cidx, ce = rng.choice(comps)
        p = path + [['fld', i, 0, self.sp()], ['cmp', cidx, 0, self.sp()]]
        subs = _usable_subs(self.version, ce[1])
        if subs:
            sidx, se = rng.choice(subs)
            p = p + [['sub', sidx, 0, self.sp()]]
            dt = se[1][2]
        else:
            dt = ce[1][2] if T.is_base(self.version, ce[1][2]) else 'ST'
            p = p + [['sub', 1, 0, 0]]
        if rng.random() < 0.5 or not self.strict:
            return {'k': 'value', 'p': p, 'obj': rng.choice(['int', 'list']), 'text': '', 'bad': 'wrong_type_value'}
        v = gen.invalid_literal(dt, self.tok, rng) or ('L' * 70000)
        return {'k': 'value', 'p': p, 'text': v, 'bad': 'invalid_value'}

    # ---- rejected operations, generated on purpose (DESIGN §7.4)
    def op_bad(self, world):
        rng = self.rng
        targets = self.seg_targets(world)
        m = self.model(world)
        if rng.random() < 0.12:
            op = self.op_deep_value_rejected(world)
            if op is not None:
                return op
        causes = ['wrong_class', 'foreign_name', 'unknown_name', 'cardinality', 'level_mismatch', 'version_mismatch',
                  'invalid_value', 'overlong_value', 'delete_absent', 'datatype_change', 'other_segment_text',
                  'wrong_type_value', 'level_mismatch_replace', 'value_partial']
        if self.kind == 'msg':
            causes += ['msg_other_text', 'seg_cardinality', 'seg_level_mismatch', 'seg_wrong_name']
        if self.twin:     # each twin has its own level: a level mismatch means nothing in lock-step
            causes = [c for c in causes if 'level' not in c]
        causes += ['unknown_varies', 'base_overflow', 'foreign_component']
        cause = rng.choice(causes)
        if cause == 'unknown_varies':
            # the one nameless field STRICT lets be constructed (datatype 'varies'): no segment may take it
            if not targets:
                return None
            path, seg_name, node = rng.choice(targets)
            return {'k': 'add_unknown', 'p': path, 'text': gen.valid_literal('ST', self.tok, rng), 'datatype': 'varies',
                    'bad': 'unknown_element'}
        if cause == 'foreign_component':
            # a named component of another datatype's structure (CX_1 is an ST) offered to an empty field
            # of that base datatype (PID_19, an ST): a foreign child, whatever its datatype
            if not targets:
                return None
            path, seg_name, node = rng.choice(targets)
            if node is None or node.key == 'MSH':
                return None
            fl = [(i, c) for i, c in _usable_fields(self.version, seg_name) if T.is_base(self.version, c[1][2])]
            have = {f.key for f in node.kids}
            fl = [(i, c) for i, c in fl if i not in have]
            if not fl:
                return None
            i, c = rng.choice(fl)
            dt = c[1][2]
            names = []
            for sname, st in sorted(T.lib(self.version).DATATYPES_STRUCTS.items()):
                for ent in st:
                    if ent[1] is not None and ent[1][2] == dt:
                        names.append(ent[0])
            if not names:
                return None
            self.pending.append({'k': 'add', 'p': path + [['fld', i, 0, 0]], 'c': ['cmp', 1, 0, 0], 'via': 'inst', 'cls': 'cmp',
                                 'name': rng.choice(names), 'text': gen.valid_literal(dt, self.tok, rng), 'bad': 'foreign_name'})
            return {'k': 'add', 'p': path, 'c': ['fld', i, 0, 0], 'via': 'factory'}
        if cause == 'base_overflow':
            # a second component / subcomponent for an element of a base datatype (preferably one that is a
            # base datatype in some versions only: TN, CM, SNM): refused under both levels
            if not targets:
                return None
            path, seg_name, node = rng.choice(targets)
            cands = []
            for i, c in _usable_fields(self.version, seg_name):
                if T.is_base(self.version, c[1][2]):
                    cands.append(('fld', i, None, c[1][2]))
                else:
                    for ci, ce in _usable_comps(self.version, c[1]):
                        if T.is_base(self.version, ce[1][2]):
                            cands.append(('cmp', i, ci, ce[1][2]))
            if not cands:
                return None
            prefer = [x for x in cands if x[3] in ('TN', 'CM', 'SNM')]
            pick = rng.choice(prefer) if prefer and rng.random() < 0.7 else rng.choice(cands)
            a, b = gen.valid_literal(pick[3], self.tok, rng), gen.valid_literal(pick[3], self.tok, rng)
            if pick[0] == 'fld':
                return {'k': 'set', 'p': path, 'c': ['fld', pick[1], 0, self.sp()], 'via': 'attr', 'bad': 'base_overflow',
                        'v': {'text': a + self.ec['COMPONENT'] + b}}
            return {'k': 'set', 'p': path + [['fld', pick[1], 0, 0]], 'c': ['cmp', pick[2], 0, self.sp()], 'via': 'attr',
                    'bad': 'base_overflow', 'v': {'text': a + self.ec['SUBCOMPONENT'] + b}}
        other_level = 2 if self.level == 1 else 1
        other_version = rng.choice([v for v in T.VERSIONS if v != self.version])
        if cause.startswith('seg_') or cause == 'msg_other_text':
            ref = T.message_ref(self.version, self.init['name'])
            segs, grps = self.msg_children(ref)
            if not segs:
                return None
            c = rng.choice(segs)
            name = c[0]
            have = len(m.reps('seg', name)) if m is not None else 0
            if cause == 'seg_cardinality':
                one = [s for s in segs if s[2][1] == 1]
                if not one:
                    return None
                c = rng.choice(one)
                via = rng.choice(['factory', 'inst'])
                return {'k': 'add', 'p': [], 'c': ['seg', c[0], 0, 0], 'via': via,
                        'text': self.segtext(c[0], ec=corpus._ec(0) if via == 'inst' else None), 'bad': 'cardinality'}
            if cause == 'seg_level_mismatch':
                if have and rng.random() < 0.6:
                    return {'k': 'set', 'p': [], 'c': ['seg', name, 0, 0], 'via': 'attr', 'bad': 'level_mismatch_replace',
                            'v': {'inst': {'cls': 'Segment', 'name': name, 'level': other_level,
                                           'text': self.segtext(name, ec=corpus._ec(0))}}}
                return {'k': 'add', 'p': [], 'c': ['seg', name, 0, 0], 'via': 'inst', 'level': other_level,
                        'text': self.segtext(name, ec=corpus._ec(0)), 'bad': 'level_mismatch'}
            if cause == 'seg_wrong_name':
                other = rng.choice([s for s in SEG_POOL if s != name and T.seg_fields(self.version, s)] or ['PV1'])
                return {'k': 'set', 'p': [], 'c': ['seg', name, 0, 0], 'via': 'attr', 'bad': 'foreign_name',
                        'v': {'text': self.segtext(other)}}
            # message.value = text of another message / version
            oname = rng.choice([x for x in MSG_POOL if x != self.init['name'] and x in T.messages(self.version)] or ['ACK'])
            text = gen.message_text(rng, other_version if rng.random() < 0.5 else self.version, oname, self.ec, self.tok)
            return {'k': 'value', 'p': [], 'text': text, 'bad': 'other_message_text'}
        if self.kind == 'msg' and rng.random() < 0.3 and m is not None:
            # through a segment that exists only by traversal: a refusal must not leave it behind
            ref = T.message_ref(self.version, self.init['name'])
            segs, grps = self.msg_children(ref)
            missing = [c for c in segs if not m.reps('seg', c[0])]
            if missing:
                c = rng.choice(missing)
                targets = [([['seg', c[0], 0, rng.choice([0, 1])]], c[0], None)]
        if not targets:
            return None
        path, seg_name, node = rng.choice(targets)
        idx, fref, reps = self.pick_field(seg_name, node, 0.7)
        step = ['fld', idx, 0, self.sp()]
        fname = '%s_%d' % (seg_name, idx)
        if node is None:
            # only assignments make sense through a segment that does not exist yet
            cause = rng.choice(['version_mismatch', 'invalid_value'] + ([] if self.twin else ['level_mismatch']))
            if cause == 'invalid_value':
                return {'k': 'set', 'p': path, 'c': step, 'via': 'attr', 'v': {'text': self.field_value(fref, 0.9)},
                        'bad': 'invalid_value'}
        if node is None and cause in ('level_mismatch', 'version_mismatch'):
            kw = {'level': other_level} if cause == 'level_mismatch' else {'version': other_version}
            if cause == 'version_mismatch' and not HN.field_ref(other_version, seg_name, idx):
                return None
            inst = {'cls': 'Field', 'name': fname, 'text': self.field_value(fref, 0, corpus._ec(0))}
            inst.update(kw)
            return {'k': 'set', 'p': path, 'c': step, 'via': 'attr', 'v': {'inst': inst}, 'bad': cause}
        if cause == 'wrong_class':
            return {'k': 'add', 'p': path, 'c': step, 'via': 'inst', 'cls': rng.choice(['seg', 'cmp', 'sub']),
                    'name': rng.choice(['PV1', 'EVN']) if True else None, 'bad': 'wrong_class'} \
                if rng.random() < 0.5 else \
                {'k': 'set', 'p': path, 'c': step, 'via': 'attr', 'bad': 'wrong_class',
                 'v': {'inst': {'cls': 'Segment', 'name': 'PV1'}}}
        if cause == 'foreign_name':
            other = rng.choice([s for s in SEG_POOL if s != seg_name and T.seg_fields(self.version, s)] or ['PV1'])
            of = _usable_fields(self.version, other)
            if not of:
                return None
            oi, oe = rng.choice(of)
            if rng.random() < 0.5:
                return {'k': 'add', 'p': path, 'c': step, 'via': 'inst', 'name': '%s_%d' % (other, oi),
                        'text': self.field_value(oe[1], 0, corpus._ec(0)), 'bad': 'foreign_name'}
            return {'k': 'set', 'p': path, 'c': step, 'attr': ('%s_%d' % (other, oi)).lower(), 'via': 'attr',
                    'v': {'text': self.field_value(oe[1])}, 'bad': 'foreign_name'}
        if cause == 'unknown_name':
            return {'k': 'set', 'p': path, 'c': step, 'attr': rng.choice(['foo_bar', 'xyz_1', 'nosuchthing', 'pid_99x']),
                    'via': 'attr', 'v': {'text': 'x'}, 'bad': 'unknown_name'}
        if cause == 'cardinality':
            one = [(i, c) for i, c in _usable_fields(self.version, seg_name) if c[2][1] == 1]
            if not one:
                return None
            i, c = rng.choice(one)
            via = rng.choice(['factory', 'inst'])
            return {'k': 'add', 'p': path, 'c': ['fld', i, 0, 0], 'via': via,
                    'text': self.field_value(c[1], 0, corpus._ec(0) if via == 'inst' else None), 'bad': 'cardinality'}
        if cause in ('level_mismatch', 'version_mismatch'):
            kw = {'level': other_level} if cause == 'level_mismatch' else {'version': other_version}
            if cause == 'version_mismatch' and not HN.field_ref(other_version, seg_name, idx):
                return None
            op = {'k': 'add', 'p': path, 'c': step, 'via': 'inst', 'text': self.field_value(fref, 0, corpus._ec(0)),
                  'bad': cause}
            op.update(kw)
            return op
        if cause == 'level_mismatch_replace':
            if not reps:
                return None
            return {'k': 'set', 'p': path, 'c': step, 'via': 'attr', 'bad': 'level_mismatch_replace',
                    'v': {'inst': {'cls': 'Field', 'name': fname, 'level': other_level,
                                   'text': self.field_value(fref, 0, corpus._ec(0))}}}
        if cause in ('invalid_value', 'overlong_value'):
            text = self.field_value(fref, 0.9)
            return {'k': rng.choice(['set', 'set', 'add']), 'p': path, 'c': step, 'via': 'attr' if True else None,
                    'v': {'text': text}, 'text': text, 'bad': cause} if rng.random() < 0.7 else \
                {'k': 'value', 'p': path + [['fld', idx, 0, 0]], 'text': text, 'bad': cause}
        if cause == 'delete_absent':
            fl = _usable_fields(self.version, seg_name)
            ex = {f.key for f in node.kids} if node is not None else set()
            absent = [i for i, c in fl if i not in ex]
            if not absent:
                return None
            i = rng.choice(absent)
            via = rng.choice(['attr', 'item'])
            return {'k': 'del', 'p': path, 'c': ['fld', i, rng.choice([0, 0, 3]), self.sp()], 'via': via, 'bad': 'delete_absent'} \
                if rng.random() < 0.8 else {'k': 'del', 'p': path, 'via': rng.choice(['childitem', 'pop']),
                                            'ci': (len(node.kids) if node is not None else 0) + rng.choice([0, 3]),
                                            'bad': 'delete_absent'}
        if cause == 'datatype_change':
            if not reps:
                return None
            if self.mixname == 'c04':
                # a refused datatype change leaves the verdict as it was
                self.pending.append({'k': 'validate', 'variant': 'errors', 'p': []})
            return {'k': 'datatype', 'p': path + [['fld', idx, 0, 0]], 'dt': rng.choice(['CX', 'ST', 'XPN', 'NM', 'CE', 'HD', 'SI', 'ID', 'DT']),
                    'bad': 'datatype_change'}
        if cause == 'other_segment_text':
            other = rng.choice([s for s in SEG_POOL if s != seg_name and T.seg_fields(self.version, s)] or ['PV1'])
            return {'k': 'value', 'p': path, 'text': self.segtext(other), 'bad': 'other_segment_text'}
        if cause == 'wrong_type_value':
            return {'k': 'set', 'p': path, 'c': step, 'via': 'attr', 'v': {'obj': rng.choice(['int', 'none_list', 'dict'])},
                    'bad': 'wrong_type_value'}
        if cause == 'value_partial':
            # text with several fields, an invalid one late: the rejection comes after some parts were accepted
            lazy = False
            if self.kind == 'msg' and rng.random() < 0.45:
                # ... assigned through a segment that does not exist yet (the lazily created element is empty
                # before and must be empty after), followed by an ordinary write through the same path
                ref_ = T.message_ref(self.version, self.init['name'])
                segs_, _g = self.msg_children(ref_)
                missing = [c for c in segs_ if m is not None and not m.reps('seg', c[0]) and c[0] != 'MSH' and
                           len(_usable_fields(self.version, c[0])) >= 2]
                if missing:
                    seg_name = rng.choice(missing)[0]
                    path = [['seg', seg_name, 0, rng.choice([0, 1])]]
                    lazy = True
            fl = _usable_fields(self.version, seg_name)
            if len(fl) < 2:
                return None
            parts = [seg_name]
            last = max(i for i, c in fl[:8])
            bad_at = rng.choice([i for i, c in fl[:8]][1:] or [last])
            for i in range(1, last + 1):
                fr = HN.field_ref(self.version, seg_name, i)
                ce = [c for j, c in fl if j == i]
                if not ce:
                    parts.append('')
                    continue
                if i == bad_at:
                    one = ce[0][2][1] == 1
                    if one and rng.random() < 0.6:
                        # two valid repetitions for a field that takes one: refused when the second is added,
                        # i.e. after the first (and every field before it) has been accepted
                        t = self.field_value(fr) + self.ec['REPETITION'] + self.field_value(fr)
                    else:
                        t = self.field_value(fr, 0.95)     # an invalid leaf: refused while the text is parsed
                    parts.append(t)
                else:
                    parts.append(self.field_value(fr) if rng.random() < 0.7 else '')
            if lazy:
                i2, c2 = rng.choice(fl)
                self.pending.append({'k': 'set', 'p': path, 'c': ['fld', i2, 0, self.sp()], 'via': 'attr',
                                     'v': {'text': self.field_value(c2[1])}})
            return {'k': 'value', 'p': path, 'text': self.ec['FIELD'].join(parts), 'bad': 'value_partial'}
        return None


# ------------------------------------------------------------------ case generation
def gen_init(rng, mix, tok):
    # C05: the "input text" half of the statement -- some initial texts carry invalid / over-long leaves
    inv = 0.15 if (mix == 'c05' and rng.random() < 0.4) else 0.0
    ovf = 0.3 if (mix == 'c05' and rng.random() < 0.25) else 0.0     # more components than the datatype defines
    version = rng.choice(T.VERSIONS)
    level = rng.choice([1, 2])
    r = rng.random()
    kind = 'seg' if r < 0.5 else ('msg' if r < 0.93 else 'fld')
    if mix in ('c04',):
        kind = 'msg' if r < 0.75 else 'seg'
    eci = rng.choice([0, 0, 0, 1, 2, 3])
    if kind == 'seg':
        pool = [s for s in SEG_POOL if _usable_fields(version, s)]
        name = rng.choice(pool) if rng.random() < 0.8 else gen.pick_segment(rng, version)
        if not _usable_fields(version, name):
            name = rng.choice(pool)
        init = {'kind': 'seg', 'name': name, 'version': version, 'level': level}
        if rng.random() < 0.08 and level == 2:
            init['name'] = 'ZZ1'
        elif rng.random() < 0.5:
            init['text'] = gen.segment_text(rng, version, name, corpus._ec(0), tok, fill=rng.choice([0.15, 0.4]), invalid_p=inv,
                                            overflow_p=ovf)
        return init
    if kind == 'msg' and mix in ('c04', 'c05') and rng.random() < 0.15:
        from worlds import valorder_world as VO
        item = VO.make_item(rng, rng.randrange(1000))
        while item.get('kind') in ('zfield', 'zmulti'):
            item = VO.make_item(rng, rng.randrange(1000))
        return {'kind': 'msg', 'name': 'RSP_K21', 'version': '2.5', 'level': level if mix == 'c05' else 2, 'ec': 0,
                'text': item['text'], 'profile': True}
    if kind == 'msg' and rng.random() < (0.08 if mix == 'c04' else 0.04):
        # a Z message: no structure of its own, any segment may be added (built through the API only:
        # the parser's group finder drops the segments of a message it has no structure for)
        return {'kind': 'msg', 'name': rng.choice(['ZDT_Z01', 'ZZZ_Z99']), 'version': version, 'level': level, 'ec': eci}
    if kind == 'msg':
        pool = [s for s in MSG_POOL if s in T.messages(version)]
        name = rng.choice(pool) if rng.random() < 0.8 else gen.pick_structure(rng, version)
        init = {'kind': 'msg', 'name': name, 'version': version, 'level': level, 'ec': eci}
        if rng.random() < 0.4:
            init['text'] = gen.message_text(rng, version, name, corpus._ec(eci), tok, opt_p=0.15, rep_p=0.3, fill=0.15,
                                            invalid_p=inv)
        return init
    # field root
    pool = [s for s in SEG_POOL if _usable_fields(version, s)]
    seg = rng.choice(pool)
    fl = [(i, c) for i, c in _usable_fields(version, seg) if _usable_comps(version, c[1])]
    if not fl:
        return gen_init(rng, mix, tok)
    i, c = rng.choice(fl)
    init = {'kind': 'fld', 'name': '%s_%d' % (seg, i), 'version': version, 'level': level}
    if rng.random() < 0.5:
        init['text'] = gen.field_text(rng, version, c[1], corpus._ec(0), tok, 0.5, inv)
    return init


def make_generate(mix, twin=False, n_ops=(2, 8)):
    def generate(seed, idx, tier):
        rng = K.derive_rng(seed, 'program')
        tok = gen.Tokens(start=(seed % 991) * 1000 + 500000, prefix='i')
        init = gen_init(rng, mix, tok)
        lo, hi = n_ops
        if tier == 'thorough':
            hi = hi + 4
        case = {'world': 'history', 'seed': seed, 'init': init, 'twin': twin, 'mix': mix,
                'gen': {'n_ops': rng.randrange(lo, hi + 1)}}
        if twin:
            case['twin_order'] = rng.choice(['strict_first', 'tolerant_first'])
        return case
    return generate


def make_execute(prefix_filter):
    """prefix_filter: monitors reported by this property (e.g. ('C09.',))."""
    def execute(case):
        g = None
        if case.get('ops') is None:
            g = Gen(case['seed'], case.get('mix', 'c09'), case['init'], twin=bool(case.get('twin')))
        w = W.execute(case, g)
        viol = [v for v in w.violations if v['monitor'].startswith(prefix_filter)]
        others = sorted({v['monitor'].split('.')[0] for v in w.violations if not v['monitor'].startswith(prefix_filter)})
        digest = hashlib.sha1(repr(w.log).encode()).hexdigest()
        probes = dict(w.probes)
        for o in others:
            probes['other_property_monitor_fired:' + o] = 1
        accepted = w.probes.get('op_accepted', 0)
        sample = {'init': {k: (v if k != 'text' else v[:100]) for k, v in case['init'].items()},
                  'ops': [_brief_op(o) for o in w.ops_done][:12],
                  'outcomes': [list(x)[:4] for x in w.log][:24]}
        return {
            'violations': viol, 'digest': digest, 'probes': probes, 'faults': dict(w.faults),
            'nontrivial': w.n_ops >= 2 and accepted >= 1, 'ilv': '', 'sim_us': 0, 'lines': 0,
            'schedule': [], 'fault_plan': [], 'sample': sample, 'states': list(w.states), 'ops': w.n_ops,
            'ops_done': w.ops_done,
        }
    return execute


def _brief_op(o):
    d = {}
    for k, v in o.items():
        if isinstance(v, str) and len(v) > 80:
            v = v[:80] + '...'
        elif isinstance(v, dict):
            v = {a: (b[:80] + '...' if isinstance(b, str) and len(b) > 80 else b) for a, b in v.items()}
        d[k] = v
    return d


def with_recording(case, res):
    c = copy.deepcopy(case)
    c['ops'] = copy.deepcopy(res['ops_done'])
    return c


def shrink(case):
    cur = copy.deepcopy(case)
    ops = cur.get('ops') or []
    n = len(ops)
    # drop suffix, then halves, then single ops
    for cut in range(1, n):
        c = copy.deepcopy(cur)
        c['ops'] = ops[:cut]
        yield c
    for i in range(n):
        c = copy.deepcopy(cur)
        c['ops'] = ops[:i] + ops[i + 1:]
        yield c
    if cur['init'].get('text'):
        c = copy.deepcopy(cur)
        del c['init']['text']
        yield c
        if cur['init']['kind'] == 'msg':
            lines = cur['init']['text'].rstrip('\r').split('\r')
            for q in range(1, len(lines)):
                c = copy.deepcopy(cur)
                c['init']['text'] = '\r'.join(lines[:q] + lines[q + 1:])
                yield c
    if cur['init'].get('ec'):
        c = copy.deepcopy(cur)
        c['init']['ec'] = 0
        # only sound when no op carries text built with the other delimiters
        if not any('text' in (o.get('v') or {}) or o.get('text') for o in ops) and not cur['init'].get('text'):
            yield c
    for i, o in enumerate(ops):
        if o.get('k') == 'read' and o.get('times', 1) > 1:
            c = copy.deepcopy(cur)
            c['ops'][i]['times'] = 1
            yield c
        for key in ('p',):
            for j, st in enumerate(o.get(key) or []):
                if st[3] != 0:
                    c = copy.deepcopy(cur)
                    c['ops'][i][key][j][3] = 0
                    yield c
        if 'c' in o and o['c'][3] != 0:
            c = copy.deepcopy(cur)
            c['ops'][i]['c'][3] = 0
            yield c


ASSUMPTIONS = [
    'regime of the reference model (DESIGN §7.2): leaf values contain no delimiter or escape characters; MSH-1/MSH-2 only through encoding_chars; no second repetition of one component; values never have more parts than the datatype defines',
    'encodings are compared after parsing both sides into nested position maps and dropping empty parts, so the library\'s trimming policy for present-but-empty children is not part of the oracle',
    'an operation the library accepts although the generator marked it as rejectable stops the model comparison for that root (other monitors continue)',
    'the wall clock is frozen',
    'roots: segments, fields, messages of the structure tables, profile-bound RSP_K21 messages (C04/C05) and Z messages (no structure of their own); the first repetition of an existing child is addressed through the proxy (s.pid_3.cx_1 = v) in about a third of the writes and by index otherwise',
    'directed sequences the generator appends to seeded operations: stale-handle write, delete, write of a sibling component; read through an absent child, add_x() of it (or a refused assignment of it), write through the same path; two handles to two components of a child the element had and lost; self-copies s.f[i] = s.f; sibling into the next free slot',
    'the content of a lazily created element whose attachment was refused (an element that belongs to no tree) is not compared',
]
