"""C19 -- concurrent use gives the same results as sequential use (DESIGN §5)."""
import copy

from simkit import kernel as K
from simkit import instr
from simkit import coldrun
from worlds import thread_world as W
from models import corpus, gen

ID = 'C19'
WORLD = 'threads'
HAS_CLOCK = False
RERECORD_ON_SHRINK = True
MINIMISE_BUDGET_S = 90.0

TIERS = {
    'quick': {'runs': 2048, 'budget_s': 240, 'batch': 16},
    'thorough': {'runs': 120000, 'budget_s': 900, 'batch': 32},
}

RULE = ('each run = K in {2,3,4} actor threads, each with 1..4 seeded public-API calls (parse_message/segment/field/'
        'component, datatype_factory, Message building; all 12 versions, both levels, 4 delimiter sets, valid and '
        'invalid leaves) under a seeded line-level schedule with touch-point bias; oracle = outcome of the same call '
        'run alone in the same process + digest of process-global objects (a call that never returns, e.g. on a leaked lock, is a violation); a run is non-trivial when at least one '
        'pre-emption landed inside hl7apy code while >= 2 actors were live; distinct = distinct SHA-1 of the event log '
        '(which includes every context switch position)')

ASSUMPTIONS = [
    'pre-emption at source-line granularity (PEP 669 LINE events) in every hl7apy function; C code is atomic',
    'every run executes in a fresh fork of a process that imported and instrumented hl7apy but never called it, and in half of the runs the concurrent phase precedes the sequential reference pass, so first-call / lazy-cache races are met cold',
    'racing first imports of a version library are explored in the cold-import sweep blocks only (the library is forgotten, its module-level lines become switch points, CPython\'s per-module import lock is made baton-aware); elsewhere version modules are imported before the run',
    'the wall clock is frozen (MSH-7 is a constant), so "the same call run alone" is well defined',
    'global-state digest covers defaults, delimiter dicts, BASE_DATATYPES maps, class-level child_classes/cls_attrs, and the content of the structure tables of the versions a run works with; memos a changed tree may add are not digested (a memo may legitimately change) -- they are exercised by the memo-pressure programs instead',
    'run-index blocks of 128: enumerated switches in state-owning code (every fourth program a memo-pressure program), fractional / lookup-layer switches of actor 0 (every third program encodes values sharing one caller-owned list of highlight ranges), cold-import switches, seeded random schedules',
]

COMPONENTS = {
    'real': ['hl7apy.parser', 'hl7apy.core', 'hl7apy.factories', 'hl7apy.base_datatypes', 'hl7apy.validation',
             'hl7apy.v2_* lookup functions and tables'],
    'stub': ['thread scheduling (baton-passed real threads)', 'wall clock (frozen)',
             'threading.Lock / RLock objects created by hl7apy modules (baton-aware replacements; the pinned tree creates none)'],
}


def required_probes(tier):
    return ['switch_in_datatype_factory', 'two_actors_in_same_function', 'switch_in_load_library',
            'versions_overlap', 'strict_and_tolerant_overlap', 'cold_process_run', 'enumerated_switch_landed',
            'switch_inside_module_import', 'thread_waited_for_import_lock', 'fractional_switch_landed',
            'calls_relying_on_configured_defaults',
            'concurrent_phase_before_reference_pass']


def extra_coverage(agg):
    return {}


def setup():
    instr.instrument_hl7apy()


SWEEP_G = 128        # consecutive run indices of a sweep block enumerate the switch points of one program
BASE_SEED = 0
SMALL_KINDS = ['factory', 'factory', 'parse_field', 'parse_component', 'segment_build', 'component_add_sub', 'parse_segment',
               'field_override', 'field_dt', 'component_switch']


def generate_sweep(idx):
    """Enumerated forced switches (the property's own quantifier): a small program, derived from the block
    number only, is run once per strong-touch line event j = idx mod G with a switch forced exactly there and
    the pre-empted thread held until all others have run through."""
    block = idx // SWEEP_G
    rng = K.derive_rng('%s:C19-sweep:%d' % (BASE_SEED, block), 'program')
    n = rng.choice([2, 2, 3])
    shared = rng.choice(corpus.T.VERSIONS)
    actors = []
    if block % 4 == 3:
        # memo pressure: every actor starts with the *same* date/time conversion (a contended first miss of
        # whatever memo the helpers may keep); one of them goes on with 70 distinct conversions (enough to
        # turn over any small bounded memo): bookkeeping that went wrong in the race shows only then
        dt = rng.choice(['DTM', 'DT', 'TM'] if 'DTM' in corpus.T.base_datatypes(shared) else ['DT', 'TM'])
        tok = gen.Tokens(start=block * 100, prefix='p')
        level = rng.choice([1, 2])
        first = {'kind': 'factory', 'dt': dt, 'value': gen.valid_literal(dt, tok, rng), 'version': shared, 'level': level}
        seen = {first['value']}
        rest = []
        while len(rest) < 70:
            v = gen.valid_literal(dt, tok, rng)
            if v not in seen:
                seen.add(v)
                rest.append({'kind': 'factory', 'dt': dt, 'value': v, 'version': shared, 'level': level})
        long_one = rng.randrange(n)
        for a in range(n):
            actors.append([dict(first)] + ([dict(c) for c in rest] if a == long_one else []))
        cfg = {'mean_budget': None, 'touch_p': 0, 'order': 'threads_first', 'sweep_at': idx % SWEEP_G}
        return {'world': 'threads', 'seed': block, 'cfg': cfg, 'actors': actors}
    for a in range(n):
        tok = gen.Tokens(start=a * 100000 + block * 100, prefix='abcd'[a])
        prog = [corpus.gen_call(rng, tok, cid='abcd'[a], kinds=SMALL_KINDS, invalid_p=0.1,
                                version=shared if rng.random() < 0.8 else None)
                for _ in range(rng.choice([1, 1, 2]))]
        actors.append(prog)
    cfg = {'mean_budget': None, 'touch_p': 0, 'order': 'threads_first', 'sweep_at': idx % SWEEP_G}
    return {'world': 'threads', 'seed': block, 'cfg': cfg, 'actors': actors}


def generate_import_sweep(idx):
    """Like generate_sweep, but the version library the actors share has been forgotten: its first use
    imports it again, and the enumerated switch points are the lines of the library's module-level code
    (plus the state-owning functions), i.e. *inside* the import."""
    block = idx // SWEEP_G
    rng = K.derive_rng('%s:C19-import:%d' % (BASE_SEED, block), 'program')
    shared = rng.choice(corpus.T.VERSIONS)
    n = rng.choice([2, 2, 3])
    actors = []
    for a in range(n):
        tok = gen.Tokens(start=a * 100000 + block * 100, prefix='abcd'[a])
        actors.append([corpus.gen_call(rng, tok, cid='abcd'[a], kinds=['factory', 'factory', 'parse_field', 'segment_build', 'component_add_sub'],
                                       invalid_p=0.0, version=shared)])
    cfg = {'mean_budget': None, 'touch_p': 0, 'order': 'threads_first', 'sweep_at': idx % SWEEP_G, 'cold_import': [shared]}
    return {'world': 'threads', 'seed': block, 'cfg': cfg, 'actors': actors}


def generate_frac_sweep(idx, tier='quick'):
    """Enumerated switch positions over the *whole* first call, not only the state-owning modules: the
    block's program is run once per j with actor 0 pre-empted (and held) after j/G of the line events its
    own calls took in the sequential reference pass.  Programs are Message builds with Z segments,
    component writes and group text, i.e. calls whose shared state, if any, would live in core.py."""
    # quick: one block (64 + 64 positions) per program; thorough: six consecutive fractional blocks share
    # one program, i.e. 384 + 384 positions -- enough to visit every line of the lookup layer of a small call
    R = 6 if tier == 'thorough' else 1
    fb = idx // (SWEEP_G * 6)
    block = fb // R
    npass = fb % R
    rng = K.derive_rng('%s:C19-frac:%d' % (BASE_SEED, block), 'program')
    shared = rng.choice(corpus.T.VERSIONS)
    actors = []
    # every third program: all actors encode textual values that were given the same (caller-owned) list
    # of highlight ranges -- the "objects mutated during encoding" anchor of the property
    kinds = ['highlight_encode'] if block % 3 == 1 else \
        ['segment_build', 'parse_segment', 'field_override', 'group_build', 'group_build', 'group_build', 'highlight_encode']
    hl = rng.randrange(len(corpus.SHARED_HIGHLIGHTS))
    for a in range(rng.choice([2, 2, 3])):
        tok = gen.Tokens(start=a * 100000 + block * 100, prefix='abcd'[a])
        actors.append([corpus.gen_call(rng, tok, cid='abcd'[a], kinds=kinds,
                                       invalid_p=0.0, version=shared if rng.random() < 0.7 else None)])
        for c in actors[-1]:
            if c['kind'] == 'highlight_encode':
                c['hl'] = hl
    j = idx % SWEEP_G
    # even j: a fraction of all line events of actor 0; odd j: a fraction of its line events inside the
    # structure-lookup layer (find_child_reference, create_element, set, ... and the state-owning modules)
    half = SWEEP_G // 2
    cfg = {'mean_budget': None, 'touch_p': 0, 'order': 'ref_first', 'sweep_frac': (npass * half + j // 2 + 0.5) / (half * R),
           'sweep_kind': 'lookup' if j % 2 else 'lines'}
    return {'world': 'threads', 'seed': block, 'cfg': cfg, 'actors': actors}


def generate(seed, idx, tier):
    b = (idx // SWEEP_G) % 6
    if b == 4:
        return generate_import_sweep(idx)
    if b == 1:
        return generate_frac_sweep(idx, tier)
    if b % 3 != 2:
        return generate_sweep(idx)
    rng = K.derive_rng(seed, 'program')
    n = rng.choice([2, 2, 3, 3, 4])
    actors = []
    shared_version = rng.choice(corpus.T.VERSIONS)     # same-version contention is where shared tables meet
    for a in range(n):
        tok = gen.Tokens(start=a * 100000 + (seed % 1000) * 100, prefix='abcd'[a])
        prog = [corpus.gen_call(rng, tok, cid='abcd'[a], version=shared_version if rng.random() < 0.5 else None)
                for _ in range(rng.choice([1, 1, 2, 2, 3, 4]))]
        actors.append(prog)
    if rng.random() < 0.2:
        # the process defaults are configured (in the main thread); some calls rely on them
        dv, dl = shared_version, rng.choice([1, 2])
        for prog in actors:
            for c in prog:
                if c['kind'] in ('parse_segment', 'factory') and c.get('version') == dv and c.get('ec', 0) in (0, 'const') and rng.random() < 0.7:
                    c['implicit'] = True
                    c['level'] = dl
        defaults = [dv, dl]
    else:
        defaults = None
    cfg = {'mean_budget': rng.choice([20, 200, 200, 2000, 20000, None]), 'touch_p': rng.choice([0, 0.1, 0.5]),
           'defaults': defaults,
           'order': rng.choice(['ref_first', 'threads_first']),
           'deep_hold_at': sorted({int(2 ** (rng.random() * 12)) for _ in range(rng.choice([0, 1, 2, 3]))})}
    if idx % 8 == 3:
        # directed (no rng draw): a numeric value with more significant digits than any arithmetic context
        # would keep -- per-thread state (the reference pass runs in the main thread, the actors do not)
        # shows as a different reading of the same text
        actors[idx % n].append({'kind': 'factory', 'dt': 'NM', 'value': '1234567890.%025d' % (idx * 7919 + 1),
                                'version': shared_version, 'level': 2})
    return {'world': 'threads', 'seed': seed, 'cfg': cfg, 'actors': actors}


def execute(case):
    # each run in a fresh fork of a process that has never called the library: caches are cold
    return coldrun.run_in_fork(_execute, case)


def _execute(case):
    w = W.execute(case)
    k = w.k
    faults = {}
    probes = dict(w.probes)
    probes['cold_process_run'] = 1
    if case['cfg'].get('sweep_at') is not None:
        probes['sweep_run'] = 1
        if k.sweep_hit is not None:
            probes['enumerated_switch_landed'] = 1
    if case['cfg'].get('sweep_frac') is not None:
        probes['fractional_sweep_run'] = 1
        if k.sweep_hit is not None:
            probes['fractional_switch_landed'] = 1
    if case['cfg'].get('defaults') and any(c.get('implicit') for prog in case['actors'] for c in prog):
        probes['calls_relying_on_configured_defaults'] = 1
    if case['cfg'].get('cold_import'):
        probes['cold_import_run'] = 1
        if k.sweep_hit is not None and k.sweep_hit[0] == '<module>':
            probes['switch_inside_module_import'] = 1
        if k.import_waits:
            probes['thread_waited_for_import_lock'] = k.import_waits
    if case['cfg'].get('order') == 'threads_first':
        probes['concurrent_phase_before_reference_pass'] = 1
    if k.lib_switches:
        faults['forced_context_switch'] = k.lib_switches
    if k.touch_cuts:
        faults['switch_at_touch_point'] = k.touch_cuts
    if k.deep_holds:
        faults['priority_change_point'] = k.deep_holds
    sample = {'actors': [[corpus.brief(c) for c in prog] for prog in case['actors']],
              'cfg': case['cfg'], 'context_switches_in_library': k.lib_switches, 'line_events': k.lines}
    return {
        'violations': w.violations, 'digest': _dg(k), 'probes': probes, 'faults': faults,
        'nontrivial': k.live_switches > 0, 'ilv': k.switch_trace.hexdigest(), 'sim_us': 0, 'lines': k.lines,
        'schedule': k.recorded, 'fault_plan': [], 'sample': sample, 'states': [],
        'ops': sum(len(p) for p in case['actors']),
    }


def _dg(k):
    import hashlib
    return hashlib.sha1((k.digest() + k.switch_trace.hexdigest()).encode()).hexdigest()


def with_recording(case, res):
    c = copy.deepcopy(case)
    c['schedule'] = res['schedule']
    return c


def shrink(case):
    cur = copy.deepcopy(case)
    base = copy.deepcopy(case)
    base.pop('schedule', None)
    base['cfg'] = dict(base['cfg'], touch_p=0)
    c = copy.deepcopy(base)
    c['schedule'] = []
    yield c
    n = len(cur['actors'])
    if n > 1:
        for j in range(n):
            c = copy.deepcopy(cur)
            del c['actors'][j]
            sch = []
            for tid, k_ in (cur.get('schedule') or []):
                if tid == j:
                    continue
                sch.append([tid - 1 if tid > j else tid, k_])
            if cur.get('schedule') is not None:
                c['schedule'] = sch
            yield c
    for j in range(n):
        prog = cur['actors'][j]
        if len(prog) > 1:
            for m in range(len(prog)):
                c = copy.deepcopy(cur)
                del c['actors'][j][m]
                yield c
        for m, call in enumerate(prog):
            if len(call.get('then', ())) > 1:
                for t in call['then']:
                    c = copy.deepcopy(cur)
                    c['actors'][j][m]['then'] = [t]
                    yield c
            if call.get('steps') and len(call['steps']) > 1:
                for q in range(len(call['steps'])):
                    c = copy.deepcopy(cur)
                    del c['actors'][j][m]['steps'][q]
                    yield c
            if call['kind'] == 'parse_message' and call['text'].count('\r') > 1:
                lines = call['text'].split('\r')
                for q in range(1, len(lines)):
                    c = copy.deepcopy(cur)
                    c['actors'][j][m]['text'] = '\r'.join(lines[:q] + lines[q + 1:])
                    yield c
    sch = cur.get('schedule')
    if sch:
        half = len(sch) // 2
        for part in (sch[:half], sch[half:]):
            c = copy.deepcopy(cur)
            c['schedule'] = part
            yield c
        merged = []
        for tid, k_ in sch:
            if merged and merged[-1][0] == tid:
                merged[-1][1] += k_
            else:
                merged.append([tid, k_])
        if len(merged) < len(sch):
            c = copy.deepcopy(cur)
            c['schedule'] = merged
            yield c
        step = max(1, len(sch) // 16)
        for s in range(0, len(sch), step):
            c = copy.deepcopy(cur)
            c['schedule'] = sch[:s] + sch[s + step:]
            yield c
