"""C16 -- MLLP: one framed request in, exactly one correctly routed reply out (DESIGN §4)."""
import copy
import random

from simkit import kernel as K
from simkit import instr
from worlds import mllp_world as W
from models import mllp_model as M

ID = 'C16'
WORLD = 'mllp'
HAS_CLOCK = True
RERECORD_ON_SHRINK = True
MINIMISE_BUDGET_S = 60.0
US = 1_000_000
SB, EB, CR = b'\x0b', b'\x1c', b'\x0d'

TIERS = {
    'quick': {'runs': 24000, 'budget_s': 240, 'batch': 100},
    'thorough': {'runs': 400000, 'budget_s': 900, 'batch': 200},
}

RULE = ('each run = one seeded world: a real MLLPServer with 1..6 scripted clients (payload class, splitting into '
        'TCP chunks, delays against the timeout, half-close/close/reset, reader behaviour), a seeded line-level '
        'schedule of the handler threads and seeded short-recv/short-send/stall faults; a run is non-trivial when at '
        'least one connection was classified SERVED or DROPPED by the reference model and at least one server-side '
        'recv blocked or was split; distinct = distinct SHA-1 of the full event log')

ASSUMPTIONS = [
    'the simulated socket is a reliable ordered byte stream with blocking calls and per-call timeouts; kernel buffer limits only when a run bounds the send buffer',
    'serve_forever/select/accept are replaced by a connect event that calls the real _handle_request_noblock()',
    'handler classes are harness classes; the reply they give is a pure function of the incoming text',
    'pre-emption at source-line granularity inside hl7apy and the handlers; C code (BufferedReader, re) is atomic',
    'payloads whose routing the statement leaves open (duplicate/missing MSH-2 characters, empty lines, no ERR handler) get safety checks only',
]

COMPONENTS = {
    'real': ['hl7apy.mllp (MLLPServer, MLLPRequestHandler, Abstract*Handler)', 'hl7apy.parser.get_message_type',
             'hl7apy.core.Message.to_mllp/to_er7 (client side message building)',
             'socketserver request path (_handle_request_noblock .. shutdown_request, ThreadingMixIn.process_request)',
             'socket.SocketIO + io.BufferedReader + socketserver._SocketWriter',
             'hl7apy parser/core inside "working" handlers'],
    'stub': ['TCP sockets (simkit.net.SimSocket/SimListener)', 'threading.Thread -> baton-passed SimThread',
             'serve_forever loop', 'wall clock (frozen datetime, simulated microsecond clock)', 'handle_error (recorder)'],
}

REQUIRED = ['first_recv_1', 'first_recv_2', 'first_recv_3', 'frame_complete_in_first_recv', 'recv_eof', 'recv_timeout',
            'served', 'dropped', 'err_invalid', 'err_unsupported', 'routed_normal', 'two_handlers_in_flight',
            'short_send', 'short_recv', 'client_gone_before_reply', 'pipelined', 'near_timeout_gap', 'undecodable',
            'conn_reset_on_recv', 'reply_delivered', 'frame_larger_than_read_buffer', 'served_frame_with_line_feed']


def required_probes(tier):
    return REQUIRED


def extra_coverage(agg):
    return {}


def setup():
    instr.instrument_hl7apy()
    W.handler_classes()


VERSIONS = ['2.1', '2.2', '2.3', '2.3.1', '2.4', '2.5', '2.5.1', '2.6', '2.7', '2.8', '2.8.1', '2.8.2']
STD_EC = {'FIELD': '|', 'COMPONENT': '^', 'SUBCOMPONENT': '&', 'REPETITION': '~', 'ESCAPE': '\\'}
ALT_ECS = [
    {'FIELD': '#', 'COMPONENT': '$', 'SUBCOMPONENT': '@', 'REPETITION': '!', 'ESCAPE': '*'},
    {'FIELD': ';', 'COMPONENT': ':', 'SUBCOMPONENT': '%', 'REPETITION': '+', 'ESCAPE': '?'},
    {'FIELD': '!', 'COMPONENT': '/', 'SUBCOMPONENT': '=', 'REPETITION': '<', 'ESCAPE': '>'},
]
TYPES = [('ADT', 'A01', 'ADT_A01'), ('ORU', 'R01', 'ORU_R01'), ('QBP', 'Q22', 'QBP_Q21'), ('ADT', 'A02', 'ADT_A02'),
         ('BAR', 'P01', 'BAR_P01'), ('DFT', 'P03', None), ('ACK', None, None), ('ZZZ', 'Z01', None)]


def _msh9(t, ec, rng):
    parts = [p for p in t if p is not None]
    if len(parts) == 3 and rng.random() < 0.3:
        parts = parts[:2]
    return ec['COMPONENT'].join(parts)


def _build_text(rng, msh9, ctrl, version, ec, struct, via_api, unicode_):
    """-> (er7 text that goes between SB and EB CR, framing_ok flag or None)."""
    name = 'José' if unicode_ else 'JOHN'
    if via_api:
        try:
            from hl7apy.core import Message
            kw = {'version': version}
            if ec is not STD_EC:
                kw['encoding_chars'] = dict(ec)
            try:
                m = Message(struct, **kw)
            except Exception:
                m = Message(**kw)
            m.msh.msh_9 = msh9
            m.msh.msh_10 = ctrl
            if rng.random() < 0.7:
                m.add_segment('EVN')
                m.evn.evn_1 = 'A01'
            if rng.random() < 0.7:
                m.add_segment('PID')
                m.pid.pid_5 = ec['COMPONENT'].join(['DOE', name])
            variant = rng.randrange(4)
            alt_ok = True
            if variant == 3:
                # delimiters other than the message's own, given explicitly: the framing identity holds for
                # them too (the frame that is sent is the ordinary one)
                alt = {'FIELD': '!', 'COMPONENT': '@', 'REPETITION': '*', 'ESCAPE': '?', 'SUBCOMPONENT': '$'} \
                    if m.encoding_chars.get('FIELD') != '!' else dict(STD_EC)
                alt_ok = m.to_mllp(encoding_chars=alt) == '\x0b' + m.to_er7(encoding_chars=alt) + '\r' + '\x1c' + '\r' and \
                    m.to_mllp(alt, True) == '\x0b' + m.to_er7(alt, True) + '\r' + '\x1c' + '\r'
                variant = 0
            if variant == 0:
                mllp, er7 = m.to_mllp(), m.to_er7()
            elif variant == 1:
                mllp, er7 = m.to_mllp(trailing_children=True), m.to_er7(trailing_children=True)
            else:
                e2 = m.encoding_chars
                mllp, er7 = m.to_mllp(encoding_chars=e2), m.to_er7(encoding_chars=e2)
            framing_ok = alt_ok and (mllp == '\x0b' + er7 + '\r' + '\x1c' + '\r')
            return er7 + '\r', framing_ok
        except Exception:
            pass
    f = ec['FIELD']
    encs = ec['COMPONENT'] + ec['REPETITION'] + ec['ESCAPE'] + ec['SUBCOMPONENT']
    segs = [f.join(['MSH', encs, 'SND', 'FAC', 'RCV', 'RFAC', '20110708163513', '', msh9, ctrl, 'D', version])]
    if rng.random() < 0.7:
        segs.append(f.join(['QPD', 'IHE PDQ Query', '111069', '@PID.3.1' + ec['COMPONENT'] + '1', '', '', '', '']))
    if rng.random() < 0.5:
        segs.append(f.join(['PID', '1', '', '', '', 'DOE' + ec['COMPONENT'] + name]))
    if rng.random() < 0.08:
        # a line feed is an ordinary character inside an MLLP frame (only CR separates segments)
        segs.append(f.join(['NTE', '1', '', 'line one' + '\n' + 'line two']))
    sep = '\r\n' if rng.random() < 0.04 else '\r'      # CR LF terminated segments: every later line starts with LF
    text = sep.join(segs)
    if rng.random() < 0.5:
        text += '\r'
    return text, None


def _split(rng, frame, sweep_idx=None):
    n = len(frame)
    if n <= 1:
        return [frame]
    if sweep_idx is not None:
        hot = sorted(set([1, 2, 3, 4] + [n - 3, n - 2, n - 1]) & set(range(1, n)))
        combos = [(a,) for a in hot]
        combos += [(a, b) for a in hot for b in range(1, n) if b > a and (b in hot or (b - a) % 7 == 1)]
        combos += [(a, b) for b in hot for a in range(1, n) if a < b and a % 11 == 5]
        cuts = combos[sweep_idx % len(combos)]
    else:
        k = rng.choice([1, 1, 2, 2, 2, 3, 3, 4, 5, 8])
        cuts = set()
        while len(cuts) < min(k - 1, n - 1):
            r = rng.random()
            if r < 0.35:
                cuts.add(rng.choice([1, 2, 3]))
            elif r < 0.55:
                cuts.add(rng.choice([n - 1, n - 2, n - 3]))
            else:
                cuts.add(rng.randrange(1, n))
        cuts = sorted(c for c in cuts if 0 < c < n)
    out = []
    prev = 0
    for c in list(cuts) + [n]:
        if c > prev:
            out.append(frame[prev:c])
            prev = c
    return out


def _delay(rng, T, faulty, first):
    r = rng.random()
    if not faulty:
        return rng.choice([0, 0, 1, 50, 1000, 20000]) if r < 0.9 else int(T * 0.5)
    if r < 0.45:
        return rng.choice([0, 0, 1, 7, 300, 4000])
    if r < 0.6:
        return int(T * rng.choice([0.3, 0.5, 0.9]))
    if r < 0.75:
        return T - rng.choice([1, 2, 1000])
    if r < 0.9:
        return T + rng.choice([1, 2, 1000])
    return 3 * T


def generate(seed, idx, tier):
    rng = K.derive_rng(seed, 'program')
    T_s = rng.choice([1, 3, 3, 10])
    T = T_s * US
    sweep = rng.random() < 0.2
    n_clients = 1 if sweep else rng.choice([1, 2, 2, 3, 3, 4, 5, 6])
    ec_pool = [STD_EC, STD_EC, STD_EC, rng.choice(ALT_ECS)]
    # registered message types for this server
    reg = []
    for t in rng.sample(TYPES[:6], rng.choice([2, 3])):
        ec = rng.choice(ec_pool)
        reg.append((t, ec, _msh9(t, ec, rng)))
    handlers = {}
    kinds = ['H1', 'H2', 'H3']
    for j, (t, ec, key) in enumerate(reg):
        args = [] if j != 1 else ['x%d' % rng.randrange(100), rng.randrange(1000)]
        handlers[key] = [kinds[j], args]
    with_err = rng.random() < 0.9
    if with_err:
        handlers['ERR'] = ['HE', [] if rng.random() < 0.7 else ['errarg']]
    cfg = {
        'timeout_s': T_s, 'handlers': handlers, 'with_err': with_err,
        'working': rng.random() < 0.12,
        'buggify': {'short_recv': rng.choice([0, 0.2, 0.6]), 'short_send': rng.choice([0, 0.2, 0.6])},
        'yield_in_sendall': True,
        'rst_after_close': rng.random() < 0.5,
        'stall_p': rng.choice([0, 0, 0, 0.05, 0.2]),
        'mean_budget': rng.choice([20, 200, 200, 2000, None]),
        'touch_p': rng.choice([0, 0.1, 0.5]),
    }
    clients = []
    framing = []
    base_t = 0
    for cid in range(n_clients):
        faulty = not (cid == 0 and not sweep and n_clients > 1) and rng.random() < 0.65
        r = rng.random()
        version = rng.choice(VERSIONS)
        ctrl = 'C%d_%d' % (cid, rng.randrange(10**6))
        unicode_ = rng.random() < 0.15
        pclass = None
        frame = None
        if not faulty or r < 0.40:
            t, ec, key = rng.choice(reg)
            pclass = 'registered'
            text, ok = _build_text(rng, key, ctrl, version, ec, t[2], rng.random() < 0.6, unicode_)
            if rng.random() < 0.03:
                # a frame larger than the reader's 8 KiB buffer
                note = ec['FIELD'].join(['NTE', '1', '', 'x' * rng.randrange(300, 900)])
                body = text.rstrip('\r').split('\r')
                while sum(len(b) + 1 for b in body) < rng.choice([8200, 8300, 9000, 12000]):
                    body.append(note)
                text = '\r'.join(body) + '\r'
            frame = SB + text.encode('utf-8') + EB + CR
        elif r < 0.50:
            ec = rng.choice(ec_pool)
            t = rng.choice(TYPES[6:] + [x for x in TYPES[:6] if _msh9(x, ec, random.Random(1)) not in handlers][:2])
            pclass = 'unregistered'
            text, ok = _build_text(rng, _msh9(t, ec, rng) if rng.random() < 0.9 else '', ctrl, version, ec, t[2],
                                   rng.random() < 0.5, unicode_)
            frame = SB + text.encode('utf-8') + EB + CR
        elif r < 0.60:
            pclass = 'nonhl7'
            ok = None
            text = rng.choice(['INVALID MESSAGE', 'HELLO\rWORLD\r', 'MSH', 'MSH |^~\\&|A|B', 'PID|1||X\r',
                               'msh|^~\\&|a', ' MSH|^~\\&|A', 'MS', 'X', 'MSH\t^~\\&', 'José'])
            frame = SB + text.encode('utf-8') + EB + CR
        elif r < 0.74:
            pclass = 'malformed'
            ok = None
            t, ec, key = rng.choice(reg)
            text, _ = _build_text(rng, key, ctrl, version, ec, t[2], False, unicode_)
            body = text.encode('utf-8')
            kind = rng.randrange(7)
            if kind == 0:
                frame = body + EB + CR                       # no SB
            elif kind == 1:
                frame = rng.choice([b'\r', b'\n', b' ', b'GET / HTTP/1.0\r\n', b'\x1c\r']) + SB + body + EB + CR
            elif kind == 2:
                frame = SB + body                            # no EB CR at all
            elif kind == 3:
                frame = SB + body + EB                       # EB without CR
            elif kind == 4:
                frame = SB + body[:rng.randrange(1, len(body))]   # truncated
            elif kind == 5:
                frame = SB + body + CR + EB                  # wrong trailer order
            else:
                frame = SB + body + EB + b'\n'               # LF instead of CR
        elif r < 0.80:
            pclass = 'badutf8'
            ok = None
            t, ec, key = rng.choice(reg)
            text, _ = _build_text(rng, key, ctrl, version, ec, t[2], False, False)
            body = bytearray(text.encode('utf-8'))
            pos = rng.randrange(9, len(body))
            body[pos:pos] = rng.choice([b'\xff', b'\xc3', b'\xe2\x82', b'\x80'])
            frame = SB + bytes(body) + EB + CR
        elif r < 0.92:
            pclass = 'pipelined'
            t, ec, key = rng.choice(reg)
            text, ok = _build_text(rng, key, ctrl, version, ec, t[2], rng.random() < 0.5, unicode_)
            t2, ec2, key2 = rng.choice(reg)
            text2, _ = _build_text(rng, key2, ctrl + 'b', version, ec2, t2[2], False, False)
            tail = rng.choice([SB + text2.encode('utf-8') + EB + CR, b'\r\n', b'trailing', SB, EB + CR])
            frame = SB + text.encode('utf-8') + EB + CR + tail
        else:
            pclass = 'unspec'
            ok = None
            kind = rng.randrange(4)
            if kind == 0:
                frame = SB + EB + CR
            elif kind == 1:
                frame = SB + b'MSH|^~\\&|A\r\rPID|1\r' + EB + CR
            elif kind == 2:
                frame = SB + b'MSH|^^\\&|A|B|C|D|E||ADT^A01|1|P|2.5\r' + EB + CR
            else:
                frame = SB + b'MSH|^~\\&|A|B|C|D|E||ERR|1|P|2.5\r' + EB + CR
        if ok is not None:
            framing.append(bool(ok))
        chunks = _split(rng, frame, sweep_idx=idx if sweep else None)
        cl_chunks = []
        for j, ch in enumerate(chunks):
            cl_chunks.append([_delay(rng, T, faulty, j == 0), ch.hex()])
        cl = {'cid': cid, 'connect_at': base_t, 'chunks': cl_chunks, 'pclass': pclass}
        if faulty:
            e = rng.random()
            if e < 0.45:
                cl['end'] = 'none'
            elif e < 0.65:
                cl['end'] = 'half'
            elif e < 0.82:
                cl['end'] = 'close'
            else:
                cl['end'] = 'reset'
            cl['end_delay'] = rng.choice([0, 1, 100, 5000, T // 2, 2 * T])
            rr = rng.random()
            if rr < 0.7:
                cl['reader'] = 'auto'
            elif rr < 0.82:
                cl['reader'] = 'none'
                if rng.random() < 0.5:
                    cl['s2c_cap'] = rng.choice([8, 64])
            else:
                cl['reader'] = 'slow'
                cl['s2c_cap'] = rng.choice([4, 16, 64])
                cl['slow'] = [rng.choice([1, 4, 16, 64]), rng.choice([50, 1000, 20000]), rng.choice([3, 10, 40])]
        else:
            cl['end'] = rng.choice(['none', 'none', 'half'])
            cl['end_delay'] = rng.choice([1, 1000])
            cl['reader'] = 'auto'
        clients.append(cl)
        base_t += rng.choice([0, 0, 1, 10, 500, 100000])
    return {'world': 'mllp', 'seed': seed, 'cfg': cfg, 'clients': clients, 'framing': framing}


def execute(case):
    w = W.execute(case, case.get('seed', 0))
    k = w.k
    viol = list(w.violations)
    for j, ok in enumerate(case.get('framing', ())):
        if not ok:
            viol.append({'monitor': 'C16.framing', 'signature': 'to_mllp() != SB + to_er7() + CR + EB + CR',
                         'step': j, 'detail': 'message %d built by a client' % j})
    probes = dict(w.probes)
    for name, n in w.net.probes.items():
        probes[name] = probes.get(name, 0) + n
    faults = dict(w.net.faults)
    if k.stalls:
        faults['thread_stall'] = k.stalls
    if k.lib_switches:
        faults['forced_context_switch'] = k.lib_switches
    T = int(case['cfg']['timeout_s'] * US)
    for cl in case['clients']:
        if any('0a' in [h[i:i + 2] for i in range(0, len(h), 2)] for _, h in cl['chunks']) and w.final_expected[cl['cid']]['cls'] == M.SERVED:
            probes['served_frame_with_line_feed'] = probes.get('served_frame_with_line_feed', 0) + 1
        if sum(len(h) // 2 for _, h in cl['chunks']) > 8192:
            probes['frame_larger_than_read_buffer'] = probes.get('frame_larger_than_read_buffer', 0) + 1
        if cl.get('pclass') == 'pipelined':
            probes['pipelined'] = probes.get('pipelined', 0) + 1
        if cl.get('pclass') == 'badutf8' and w.final_expected[cl['cid']]['cls'] == M.DROPPED and \
                'undecodable' in w.final_expected[cl['cid']]['why']:
            probes['undecodable'] = probes.get('undecodable', 0) + 1
        for d, _ in cl['chunks']:
            if T - 1000 <= d < T:
                probes['near_timeout_gap'] = probes.get('near_timeout_gap', 0) + 1
        if len(cl['chunks']) > 1:
            faults['stream_split'] = faults.get('stream_split', 0) + len(cl['chunks']) - 1
        if cl.get('end') in ('half', 'close', 'reset'):
            faults['client_' + cl['end']] = faults.get('client_' + cl['end'], 0) + 1
    classes = [w.final_expected[c['cid']]['cls'] for c in case['clients']]
    nontrivial = any(c in (M.SERVED, M.DROPPED) for c in classes) and \
        (w.net.probes.get('recv_blocked', 0) > 0 or faults.get('short_recv', 0) > 0)
    sample = {
        'timeout_s': case['cfg']['timeout_s'],
        'clients': [{'cid': c['cid'], 'class': c.get('pclass'), 'chunks': [[d, len(h) // 2] for d, h in c['chunks']],
                     'end': c.get('end'), 'reader': c.get('reader'),
                     'model': w.final_expected[c['cid']]['cls'], 'why': w.final_expected[c['cid']]['why']}
                    for c in case['clients']],
        'handlers_invoked': [(c[0], c[1], c[4]) for c in w.constructs],
        'scheduling_decisions': k.decisions, 'line_events': k.lines,
    }
    return {
        'violations': viol, 'digest': k.digest(), 'probes': probes, 'faults': faults,
        'nontrivial': nontrivial, 'ilv': k.switch_trace.hexdigest(), 'sim_us': k.now, 'lines': k.lines,
        'schedule': k.recorded, 'fault_plan': w.net.recorded_plan, 'sample': sample,
        'states': [], 'ops': len(case['clients']),
    }


def with_recording(case, res):
    c = copy.deepcopy(case)
    c['schedule'] = res['schedule']
    c['fault_plan'] = res['fault_plan']
    return c


def _renumber(clients):
    out = []
    for j, c in enumerate(clients):
        c = dict(c)
        c['cid'] = j
        out.append(c)
    return out


def shrink(case):
    """Candidate simplifications, most aggressive first."""
    base = copy.deepcopy(case)
    base.pop('schedule', None)
    base.pop('fault_plan', None)
    base['cfg'] = dict(base['cfg'], stall_p=0, touch_p=0)
    # 0. no faults, default schedule
    c = copy.deepcopy(base)
    c['schedule'] = []
    c['fault_plan'] = []
    yield c
    c = copy.deepcopy(base)
    c['fault_plan'] = []
    c['schedule'] = case.get('schedule')
    yield c
    c = copy.deepcopy(base)
    c['schedule'] = []
    c['fault_plan'] = case.get('fault_plan')
    yield c
    cur = copy.deepcopy(case)
    n = len(cur['clients'])
    # 1. drop clients (keeps the explicit schedule: entries of missing threads are skipped)
    if n > 1:
        for j in range(n):
            c = copy.deepcopy(cur)
            c['clients'] = _renumber(cur['clients'][:j] + cur['clients'][j + 1:])
            c['framing'] = []
            # thread ids shift: remap schedule entries
            sch = []
            for tid, k_ in (cur.get('schedule') or []):
                if tid == j:
                    continue
                sch.append([tid - 1 if tid > j else tid, k_])
            if cur.get('schedule') is not None:
                c['schedule'] = sch
            yield c
    # 2. simplify each client
    for j in range(n):
        cl = cur['clients'][j]
        if len(cl['chunks']) > 1:
            c = copy.deepcopy(cur)
            data = ''.join(h for _, h in cl['chunks'])
            c['clients'][j]['chunks'] = [[cl['chunks'][0][0], data]]
            yield c
            for m in range(len(cl['chunks']) - 1):
                c = copy.deepcopy(cur)
                ch = c['clients'][j]['chunks']
                ch[m] = [ch[m][0], ch[m][1] + ch[m + 1][1]]
                del ch[m + 1]
                yield c
        for m, (d, h) in enumerate(cl['chunks']):
            if d > 0:
                c = copy.deepcopy(cur)
                c['clients'][j]['chunks'][m][0] = 0
                yield c
        if cl.get('reader', 'auto') != 'auto':
            c = copy.deepcopy(cur)
            c['clients'][j]['reader'] = 'auto'
            c['clients'][j].pop('s2c_cap', None)
            c['clients'][j].pop('slow', None)
            yield c
        if cl.get('end', 'none') != 'none':
            c = copy.deepcopy(cur)
            c['clients'][j]['end'] = 'none'
            yield c
        if cl.get('connect_at', 0) > 0:
            c = copy.deepcopy(cur)
            c['clients'][j]['connect_at'] = 0
            yield c
    # 3. configuration
    for key, val in (('working', False), ('yield_in_sendall', False), ('rst_after_close', False)):
        if cur['cfg'].get(key):
            c = copy.deepcopy(cur)
            c['cfg'][key] = val
            yield c
    # 4. fault plan entries
    fp = cur.get('fault_plan') or []
    nz = [i for i, (s, v) in enumerate(fp) if v]
    for i in nz:
        c = copy.deepcopy(cur)
        c['fault_plan'][i][1] = 0
        yield c
    # 5. schedule: drop halves, merge neighbours, drop stalls
    sch = cur.get('schedule')
    if sch:
        half = len(sch) // 2
        for part in (sch[:half], sch[half:]):
            c = copy.deepcopy(cur)
            c['schedule'] = part
            yield c
        merged = []
        for tid, k_ in sch:
            if merged and merged[-1][0] == tid and tid != -1:
                merged[-1][1] += k_
            else:
                merged.append([tid, k_])
        if len(merged) < len(sch):
            c = copy.deepcopy(cur)
            c['schedule'] = merged
            yield c
        if any(t == -1 for t, _ in sch):
            c = copy.deepcopy(cur)
            c['schedule'] = [e for e in sch if e[0] != -1]
            yield c
        step = max(1, len(sch) // 16)
        for s in range(0, len(sch), step):
            c = copy.deepcopy(cur)
            c['schedule'] = sch[:s] + sch[s + step:]
            yield c
