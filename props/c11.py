"""C11 -- history world (DESIGN §7)."""
from props import _hist
from props._hist import setup, with_recording, shrink, WORLD, HAS_CLOCK, RERECORD_ON_SHRINK, MINIMISE_BUDGET_S, COMPONENTS, ASSUMPTIONS

ID = 'C11'
TIERS = {
    'quick': {'runs': 30000, 'budget_s': 240, 'batch': 125},
    'thorough': {'runs': 800000, 'budget_s': 900, 'batch': 500},
}
generate = _hist.make_generate('c11')
execute = _hist.make_execute('C11.')

RULE = ('each run = one seeded history mixing read chains of depth 1-4 over existing and non-existing children (repr, len, '
        'iter, in, [], value, to_er7 with both trailing modes, validate, repeated 1-3 times) with writes at the end of such '
        'chains; a read must leave encoding, child listing (identities) and validation report unchanged; a write must create '
        'exactly as many element objects as the reference model creates nodes; non-trivial = >= 2 operations, >= 1 accepted')


def required_probes(tier):
    return ['c11_read_checked', 'c11_write_checked', 'c11_deep_chain_write']


def extra_coverage(agg):
    return {}
