"""C04 -- validate(): purity, determinism, report / raise / file consistency over histories and under
report-file I/O faults (DESIGN §7.7; the sweep over every structure of every version is not claimed)."""
from props import _hist
from props._hist import setup, with_recording, shrink, WORLD, HAS_CLOCK, RERECORD_ON_SHRINK, MINIMISE_BUDGET_S, COMPONENTS, ASSUMPTIONS

ID = 'C04'
TIERS = {
    'quick': {'runs': 18000, 'budget_s': 240, 'batch': 100},
    'thorough': {'runs': 500000, 'budget_s': 900, 'batch': 400},
}
import copy
import hashlib

from simkit import kernel as K
from worlds import valorder_world as VO

_gen_hist = _hist.make_generate('c04')
_exec_hist = _hist.make_execute(('C04.', 'C11.read'))
_shrink_hist = shrink
_rec_hist = with_recording


def generate(seed, idx, tier):
    if idx % 10 in (3, 7):
        rng = K.derive_rng(seed, 'valorder')
        n = rng.choice([2, 3, 3, 4])
        items = [VO.make_item(rng, i) for i in range(n)]
        if rng.random() < 0.4:
            # the same text judged against the message profile and against the standard tables, with a
            # segment the one structure lists and the other does not: what is allowed belongs to the
            # reference an element is validated against, not to its name
            base = VO.make_item(rng, 90, force=rng.choice(['dsc', 'sft', 'err', 'zseg', 'extra_field']))
            items[0] = dict(base, ref='mp')
            items[1] = dict(base, ref=rng.choice(['std', 'std_nogroups']))
        o1 = list(range(n))
        o2 = list(range(n))
        while o2 == o1:
            rng.shuffle(o2)
        return {'world': 'valorder', 'seed': seed, 'items': items, 'orders': [o1, o2]}
    return _gen_hist(seed, idx, tier)


def execute(case):
    if case.get('world') != 'valorder':
        return _exec_hist(case)
    res, viol = VO.execute(case)
    digest = hashlib.sha1(repr(res).encode()).hexdigest()
    refs = {it['ref'] for it in case['items']}
    return {'violations': viol, 'digest': digest, 'probes': {'c04_order_run': 1, 'c04_order_run_mixed_references': int(len(refs) > 1)},
            'faults': {'validation_order_permuted': 1}, 'nontrivial': len(refs) > 1, 'ilv': '', 'sim_us': 0, 'lines': 0,
            'schedule': [], 'fault_plan': [], 'states': [], 'ops': len(case['items']),
            'sample': {'items': [{'ref': it['ref'], 'edits': it['edits'], 'text': str(it.get('text', it.get('fields')))[:80]} for it in case['items']],
                       'orders': case['orders']}}


def with_recording(case, res):
    if case.get('world') == 'valorder':
        return copy.deepcopy(case)
    return _rec_hist(case, res)


def shrink(case):
    if case.get('world') != 'valorder':
        for c in _shrink_hist(case):
            yield c
        return
    n = len(case['items'])
    if n > 2:
        for j in range(n):
            c = copy.deepcopy(case)
            del c['items'][j]
            c['orders'] = [[x - (1 if x > j else 0) for x in o if x != j] for o in case['orders']]
            if c['orders'][0] != c['orders'][1]:
                yield c

RULE = ('each run = one seeded history of 2..8 operations on a Message or Segment (parsed or built), 38% of them validate() '
        'variants: return_errors twice, raising form, report to a path (simulated file system) and to a file-like object, with '
        'seeded open / k-th write (incl. short write) / close errors; checked: validate changes nothing (encoding, child '
        'identities), two calls agree, is_valid == no errors, the raising form raises exactly errors[0], the report holds '
        'exactly "Error: e" / "Warning: w" lines, an injected I/O error surfaces instead of validate() completing; and on the '
        'reached state every structural defect the reference model predicts from the tables (required child missing, maximum '
        'exceeded, child not allowed, restructured datatype) is named by an error, while a state reached from a cleanly '
        'validating start by valid writes without predicted defect must still validate; '
        'non-trivial = >= 2 operations, >= 1 accepted; one run in ten is an order run instead: 2-4 RSP_K21 variants validated '
        'against the standard tables or the shipped ITI-21 profile, in two different orders, each order in a fresh fork with cold '
        'caches -- the per-item reports must not depend on the order')


def required_probes(tier):
    return ['c04_errors_form', 'c04_raise_with_errors', 'c04_raise_valid', 'c04_report_exact', 'c04_report_nonempty', 'c04_report_over_stale_file',
            'c04_report_fault_fired', 'c04_valid_state', 'c04_invalid_state', 'c04_verdict_checked', 'c04_predicted_defect_missing',
            'c04_predicted_defect_exceeded', 'c04_conforming_state_checked', 'c04_order_run_mixed_references',
            'c04_selfassign_checked', 'c04_selfassign_profile', 'c04_force_validation_parse', 'c04_unknown_element_present',
            'report_file_open_error',
            'report_file_write_error', 'report_file_close_error']


def extra_coverage(agg):
    return {}
