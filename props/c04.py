"""C04 -- validate(): purity, determinism, report / raise / file consistency over histories and under
report-file I/O faults (DESIGN §7.7; the sweep over every structure of every version is not claimed)."""
from props import _hist
from props._hist import setup, with_recording, shrink, WORLD, HAS_CLOCK, RERECORD_ON_SHRINK, MINIMISE_BUDGET_S, COMPONENTS, ASSUMPTIONS

ID = 'C04'
TIERS = {
    'quick': {'runs': 24000, 'budget_s': 60, 'batch': 200},
    'thorough': {'runs': 500000, 'budget_s': 900, 'batch': 400},
}
generate = _hist.make_generate('c04')
execute = _hist.make_execute(('C04.', 'C11.read'))

RULE = ('each run = one seeded history of 2..8 operations on a Message or Segment (parsed or built), 38% of them validate() '
        'variants: return_errors twice, raising form, report to a path (simulated file system) and to a file-like object, with '
        'seeded open / k-th write (incl. short write) / close errors; checked: validate changes nothing (encoding, child '
        'identities), two calls agree, is_valid == no errors, the raising form raises exactly errors[0], the report holds '
        'exactly "Error: e" / "Warning: w" lines, an injected I/O error surfaces instead of validate() completing; and on the '
        'reached state every structural defect the reference model predicts from the tables (required child missing, maximum '
        'exceeded, child not allowed, restructured datatype) is named by an error, while a state reached from a cleanly '
        'validating start by valid writes without predicted defect must still validate; '
        'non-trivial = >= 2 operations, >= 1 accepted')


def required_probes(tier):
    return ['c04_errors_form', 'c04_raise_with_errors', 'c04_raise_valid', 'c04_report_exact', 'c04_report_nonempty',
            'c04_report_fault_fired', 'c04_valid_state', 'c04_invalid_state', 'c04_verdict_checked', 'c04_predicted_defect_missing',
            'c04_predicted_defect_exceeded', 'c04_conforming_state_checked', 'report_file_open_error',
            'report_file_write_error', 'report_file_close_error']


def extra_coverage(agg):
    return {}
