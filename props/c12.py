"""C12 -- history world (DESIGN §7)."""
from props import _hist
from props._hist import setup, with_recording, shrink, WORLD, HAS_CLOCK, RERECORD_ON_SHRINK, MINIMISE_BUDGET_S, COMPONENTS, ASSUMPTIONS

ID = 'C12'
TIERS = {
    'quick': {'runs': 30000, 'budget_s': 240, 'batch': 125},
    'thorough': {'runs': 800000, 'budget_s': 900, 'batch': 500},
}
generate = _hist.make_generate('c12')
execute = _hist.make_execute('C12.')

RULE = ('each run = one seeded history that builds state and then issues operations the library must reject (wrong class, '
        'foreign / unknown name, cardinality overflow, level / version mismatch incl. on replace, invalid / over-long value, '
        'deleting an absent child, datatype change on a populated element, text of another segment / message, value= text '
        'that fails half-way); whenever an operation raises, raw encoding (both trailing modes) and the recursive '
        '(class, name, identity) listing of every root must be what they were before; non-trivial = >= 2 operations, >= 1 accepted')


def required_probes(tier):
    return ['c12_unchanged', 'op_rejected']


def extra_coverage(agg):
    return {}
