"""C09 -- history world (DESIGN §7)."""
from props import _hist
from props._hist import setup, with_recording, shrink, WORLD, HAS_CLOCK, RERECORD_ON_SHRINK, MINIMISE_BUDGET_S, COMPONENTS, ASSUMPTIONS

ID = 'C09'
TIERS = {
    'quick': {'runs': 30000, 'budget_s': 240, 'batch': 125},
    'thorough': {'runs': 800000, 'budget_s': 900, 'batch': 500},
}
generate = _hist.make_generate('c09')
execute = _hist.make_execute('C09.')

RULE = ('each run = one seeded history of 2..8 operations (set by name / long name / positional path, set by index through '
        'the proxy and through children[i], add_<child>, add(instance), value=, copy from another element, delete by '
        'name / index / remove / pop) on a Segment, Message (with groups) or Field of a random version and level, started '
        'empty or from parsed text; after every accepted operation the canonical encoding of the element must equal that '
        'of the reference model stepped in lock-step; non-trivial = at least 2 operations of which at least one was '
        'accepted; distinct = distinct SHA-1 of the (operation, outcome, state) log')


def required_probes(tier):
    return ['c09_compared', 'op_accepted', 'op_rejected']


def extra_coverage(agg):
    return {}
