"""C17 -- explicit arguments override process-wide defaults (DESIGN §6)."""
import copy

from simkit import kernel as K
from simkit import instr
from worlds import defaults_world as W
from models import corpus, gen, tables as T

ID = 'C17'
WORLD = 'defaults'
HAS_CLOCK = False
RERECORD_ON_SHRINK = False
MINIMISE_BUDGET_S = 60.0

TIERS = {
    'quick': {'runs': 12000, 'budget_s': 240, 'batch': 40},
    'thorough': {'runs': 120000, 'budget_s': 900, 'batch': 80},
}

RULE = ('each run = 1..3 corpus calls with explicit version/level/delimiters (parse_*, datatype_factory, Message / '
        'Segment / Component construction and edits, surplus fields after a trailing varies field, segments valued parent-less and then attached, to_er7(encoding_chars=), validate), each executed once under the '
        'shipped defaults (reference) and once with seeded hl7apy.set_default_* calls landing between calls, while an '
        'element is alive, immediately before the j-th consultation of a default, or at the n-th source line of the '
        'call; non-trivial = at least one flip landed and the call consulted a default or kept an element alive; '
        'distinct = distinct SHA-1 of the (call, resolved plan, outcome) log')

ASSUMPTIONS = [
    'flips are applied inside the monitoring callback, which is where another thread\'s set_default_* would land under a line-granular interleaving',
    'default delimiter sets are drawn from 4 sets whose characters never occur in generated leaf values',
    'outside the oracle by statement or documented design: bare to_er7()/value=/validate() of parent-less non-message elements with delimiter-bearing text, Message() without encoding_chars=, datatype objects constructed by the user without a level',
    'the wall clock is frozen',
]

COMPONENTS = {
    'real': ['hl7apy.set_default_* / get_default_*', 'hl7apy.parser', 'hl7apy.core', 'hl7apy.factories',
             'hl7apy.base_datatypes', 'hl7apy.validation'],
    'stub': ['the "other caller" changing the defaults (seeded flip plan)', 'wall clock (frozen)'],
}

KINDS = ['parse_message', 'parse_message', 'parse_segment', 'parse_segment', 'parse_field', 'parse_component',
         'factory', 'factory', 'build', 'build', 'segment_build', 'segment_build', 'component_add_sub', 'field_dt',
         'parse_segment_surplus', 'build_attach']


def required_probes(tier):
    # flip_before_consult_version / _level are reported but not required: on a tree where every call
    # site forwards its explicit arguments those two defaults are never consulted at all
    return ['flip_between_calls', 'flip_while_element_alive', 'flip_before_consult_ec', 'flip_at_line',
            'call_consults_a_default']


def extra_coverage(agg):
    return {}


def setup():
    instr.instrument_hl7apy()
    import hl7apy
    K.watch_starts({hl7apy.get_default_version.__code__, hl7apy.get_default_validation_level.__code__,
                    hl7apy.get_default_encoding_chars.__code__})


MESSAGE_ROOTED = ('parse_message', 'build', 'factory', 'component_add_sub')


def _flip(rng, kind=None):
    f = [rng.choice(T.VERSIONS), rng.choice([1, 2]), rng.choice([0, 1, 2, 3])]
    if kind in MESSAGE_ROOTED and rng.random() < 0.3:
        f[2] = 4
    r = rng.random()
    if r < 0.3:          # single-default flips make the report sharper
        keep = rng.randrange(3)
        f = [f[i] if i == keep else None for i in range(3)]
    return f


def generate(seed, idx, tier):
    rng = K.derive_rng(seed, 'program')
    tok = gen.Tokens(start=(seed % 1000) * 100)
    calls = []
    for _ in range(rng.choice([1, 1, 2, 3])):
        call = corpus.gen_call(rng, tok, cid='w', kinds=KINDS, invalid_p=0.25)
        plan = {}
        _k = call['kind']
        if _k == 'build' and any(st[0] in ('copy_field', 'attach_touched') for st in call.get('steps', [])):
            _k = None      # a copy from a parent-less segment serialises that segment with the defaults
        mode = rng.random()
        if mode < 0.30:
            plan['before'] = _flip(rng, _k)
        elif mode < 0.50:
            plan['alive'] = {str(rng.randrange(0, 4)): _flip(rng, _k)}
            if rng.random() < 0.3:
                plan['alive'][str(rng.randrange(0, 4))] = _flip(rng, _k)
        elif mode < 0.80:
            plan['consult'] = {('%.3f' % rng.random()): _flip(rng, _k)}
            if rng.random() < 0.3:
                plan['consult']['%.3f' % rng.random()] = _flip(rng, _k)
        else:
            plan['line'] = {('%.4f' % rng.random()): _flip(rng, _k)}
        if rng.random() < 0.15 and 'before' not in plan:
            plan['before'] = _flip(rng, _k)
        calls.append({'call': call, 'plan': plan})
    return {'world': 'defaults', 'seed': seed, 'calls': calls}


def execute(case):
    w = W.execute(case)
    import hashlib
    h = hashlib.sha1(repr(w.log).encode()).hexdigest()
    faults = {k: v for k, v in w.probes.items() if k.startswith('flip_')}
    consulted = w.probes.get('call_consults_a_default', 0) > 0
    sample = {'calls': [{'call': corpus.brief(it['call']), 'plan': it['plan']} for it in case['calls']],
              'log': [list(x)[:5] for x in w.log]}
    return {
        'violations': w.violations, 'digest': h, 'probes': w.probes, 'faults': faults,
        'nontrivial': w.flips_done > 0 and (consulted or w.probes.get('flip_while_element_alive', 0) > 0),
        'ilv': h, 'sim_us': 0, 'lines': w.lines, 'schedule': [], 'fault_plan': [], 'sample': sample,
        'states': [], 'ops': len(case['calls']),
    }


def with_recording(case, res):
    return copy.deepcopy(case)


def shrink(case):
    cur = copy.deepcopy(case)
    n = len(cur['calls'])
    if n > 1:
        for j in range(n):
            c = copy.deepcopy(cur)
            del c['calls'][j]
            yield c
    for j in range(n):
        it = cur['calls'][j]
        plan = it['plan']
        # fewer flips
        for key in ('before', 'alive', 'consult', 'line'):
            if key in plan and len(plan) > 1:
                c = copy.deepcopy(cur)
                del c['calls'][j]['plan'][key]
                yield c
        for key in ('alive', 'consult', 'line'):
            if key in plan and len(plan[key]) > 1:
                for kk in list(plan[key]):
                    c = copy.deepcopy(cur)
                    del c['calls'][j]['plan'][key][kk]
                    yield c
        # single-default flips
        def flips(p):
            if p.get('before') is not None:
                yield ('before', None)
            for key in ('alive', 'consult', 'line'):
                for kk in (p.get(key) or {}):
                    yield (key, kk)
        for key, kk in flips(plan):
            f = plan[key] if kk is None else plan[key][kk]
            if sum(1 for x in f if x is not None) > 1:
                for keep in range(3):
                    if f[keep] is None:
                        continue
                    nf = [f[i] if i == keep else None for i in range(3)]
                    c = copy.deepcopy(cur)
                    if kk is None:
                        c['calls'][j]['plan'][key] = nf
                    else:
                        c['calls'][j]['plan'][key][kk] = nf
                    yield c
        # a mid-call flip expressed as a constant setting
        if 'before' not in plan:
            for key, kk in flips(plan):
                f = plan[key][kk]
                c = copy.deepcopy(cur)
                c['calls'][j]['plan'] = {'before': f}
                yield c
        call = it['call']
        if len(call.get('then', ())) > 1:
            for t in call['then']:
                c = copy.deepcopy(cur)
                c['calls'][j]['call']['then'] = [t]
                yield c
        if call.get('steps') and len(call['steps']) > 1:
            for q in range(len(call['steps'])):
                c = copy.deepcopy(cur)
                del c['calls'][j]['call']['steps'][q]
                yield c
        if call['kind'] == 'parse_message' and call['text'].count('\r') > 1:
            lines = call['text'].rstrip('\r').split('\r')
            for q in range(1, len(lines)):
                c = copy.deepcopy(cur)
                c['calls'][j]['call']['text'] = '\r'.join(lines[:q] + lines[q + 1:])
                yield c
        if call['kind'] in ('parse_segment',) and call['text'].count(corpus.ECS[call['ec']]['FIELD']) > 1:
            sep = corpus.ECS[call['ec']]['FIELD']
            parts = call['text'].split(sep)
            for q in range(1, len(parts)):
                if parts[q]:
                    c = copy.deepcopy(cur)
                    pp = list(parts)
                    pp[q] = ''
                    c['calls'][j]['call']['text'] = sep.join(pp).rstrip(sep)
                    yield c
