"""C05 -- STRICT accepts a subset of TOLERANT and enforces what validate() checks (DESIGN §7.6)."""
from props import _hist
from props._hist import setup, with_recording, shrink, WORLD, HAS_CLOCK, RERECORD_ON_SHRINK, MINIMISE_BUDGET_S, COMPONENTS, ASSUMPTIONS

ID = 'C05'
TIERS = {
    'quick': {'runs': 18000, 'budget_s': 240, 'batch': 100},
    'thorough': {'runs': 500000, 'budget_s': 900, 'batch': 400},
}
generate = _hist.make_generate('c05', twin=True)
execute = _hist.make_execute('C05.')

RULE = ('each run = one seeded history applied in lock-step to a STRICT twin and a TOLERANT twin of the same element (same '
        'version, same initial text: parse_message / parse_segment / parse_field of generated in-structure text with valid '
        'and invalid leaf literals, or an empty element), then 2..8 add/set/delete/value operations; while STRICT has accepted '
        'everything so far TOLERANT must have accepted each too, canonical encodings and normalised validation reports must be '
        'equal, every STRICT validator error must be a missing required child, and every STRICT leaf must hold a value object '
        'of its datatype within its maximum length; the run ends when STRICT rejects; non-trivial = >= 2 operations, >= 1 accepted')


def required_probes(tier):
    return ['c05_twins_compared', 'c05_strict_rejected', 'op_accepted']


def extra_coverage(agg):
    return {}
