"""C10 -- history world (DESIGN §7)."""
from props import _hist
from props._hist import setup, with_recording, shrink, WORLD, HAS_CLOCK, RERECORD_ON_SHRINK, MINIMISE_BUDGET_S, COMPONENTS, ASSUMPTIONS

ID = 'C10'
TIERS = {
    'quick': {'runs': 30000, 'budget_s': 240, 'batch': 125},
    'thorough': {'runs': 800000, 'budget_s': 900, 'batch': 500},
}
generate = _hist.make_generate('c10')
execute = _hist.make_execute('C10.')

RULE = ('each run = one seeded history of 2..8 operations including re-attachment of attached children, rejected calls of 14 '
        'kinds, traversal reads and deletions through either view; after every operation (accepted or rejected) every root '
        'the program holds is walked: parent pointers, single listing, list / by-name index / by-name lookup / len / iter / '
        'in / [] agreement, shadow children, one version and level per tree; non-trivial = >= 2 operations, >= 1 accepted')


def required_probes(tier):
    return ['c10_checked', 'op_accepted', 'op_rejected']


def extra_coverage(agg):
    return {}
