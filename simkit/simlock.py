"""Baton-aware threading.Lock / RLock for locks the *library* creates (thread world): a simulated
thread that would block on a lock held by another, parked, simulated thread parks through the kernel
instead of blocking for real -- otherwise it would block while holding the baton and the whole
simulation would hang (on a library change that is perfectly correct, e.g. one that adds a lock
around shared state).  A lock that is never released shows as threads blocked for ever when the run
is quiescent ("call never returned"), not as a hang.

Only locks created from hl7apy modules are replaced (the factory looks at the module of the calling
frame); the interpreter's, the standard library's and the kernel's own locks stay real."""
import sys
import _thread
import threading

from . import kernel as K

_installed = False
_real_lock = threading.Lock
_real_rlock = threading.RLock


class SimLockLeak(Exception):
    pass


class SimLock:
    def __init__(self):
        self._real = _thread.allocate_lock()

    def acquire(self, blocking=True, timeout=-1):
        t = K.current_thread()
        k = K._K
        if t is None or k is None or t.ident != _thread.get_ident():
            # not a simulated thread (sequential reference pass, generation): nothing else runs then, so a
            # lock that is held now was leaked by a thread that has ended and will never be released
            if self._real.acquire(False):
                return True
            if not blocking:
                return False
            raise SimLockLeak('a library lock is still held by a thread that has ended')
        if self._real.acquire(False):
            return True
        if not blocking:
            return False
        k.lock_waits = getattr(k, 'lock_waits', 0) + 1
        deadline = None if timeout is None or timeout < 0 else k.now + int(timeout * 1_000_000)
        while True:
            if not t.block(lambda: not self._real.locked(), deadline, 'lock'):
                return False            # simulated timeout
            if self._real.acquire(False):
                return True

    def release(self):
        self._real.release()

    def locked(self):
        return self._real.locked()

    __enter__ = acquire

    def __exit__(self, *a):
        self.release()


class SimRLock:
    def __init__(self):
        self._lock = SimLock()
        self._owner = None
        self._count = 0

    def acquire(self, blocking=True, timeout=-1):
        me = _thread.get_ident()
        if self._owner == me:
            self._count += 1
            return True
        if self._lock.acquire(blocking, timeout):
            self._owner = me
            self._count = 1
            return True
        return False

    def release(self):
        if self._owner != _thread.get_ident():
            raise RuntimeError('cannot release un-acquired lock')
        self._count -= 1
        if self._count == 0:
            self._owner = None
            self._lock.release()

    __enter__ = acquire

    def __exit__(self, *a):
        self.release()

    def _is_owned(self):
        return self._owner == _thread.get_ident()


def _from_library():
    f = sys._getframe(2)
    return str(f.f_globals.get('__name__', '')).startswith('hl7apy')


def install():
    """Before hl7apy is imported: module-level locks are created at import time."""
    global _installed
    if _installed:
        return
    _installed = True

    def Lock():
        return SimLock() if _from_library() else _real_lock()

    def RLock(*a, **kw):
        return SimRLock() if _from_library() else _real_rlock(*a, **kw)
    threading.Lock = Lock
    threading.RLock = RLock
