"""Small shared helpers: frozen clock namespace, canonical exception text, JSON-safe samples."""
import re
import datetime as _dt


class _FrozenDateTime(_dt.datetime):
    @classmethod
    def now(cls, tz=None):
        return cls(2024, 1, 2, 3, 4, 5)

    @classmethod
    def utcnow(cls):
        return cls(2024, 1, 2, 3, 4, 5)


class _FrozenModule:
    def __init__(self):
        self.datetime = _FrozenDateTime

    def __getattr__(self, name):
        return getattr(_dt, name)


class Frozen:
    @staticmethod
    def datetime_module():
        return _FrozenModule()


_ADDR = re.compile(r'0x[0-9a-fA-F]+')
_SETLIST = re.compile(r"(Invalid children detected for [^:]*: )\[(.*)\]")


def canon_text(s):
    """Strip memory addresses; sort the one place the library prints list(set)."""
    s = _ADDR.sub('0x?', s)

    def fix(m):
        items = sorted(x.strip() for x in m.group(2).split(','))
        return m.group(1) + '[' + ', '.join(items) + ']'
    return _SETLIST.sub(fix, s)


def canon_exc(e):
    try:
        msg = str(e)
    except Exception as e2:      # some hl7apy exceptions format lazily and may fail
        msg = '<unprintable %s>' % type(e2).__name__
    return '%s: %s' % (type(e).__name__, canon_text(msg))
