"""Generic check driver: seeded batches over a process pool, violation triage against
known_findings.json, minimisation, replay files, evidence files, exit codes.

Exit codes: 0 held (known findings printed), 1 VIOLATION, 2 harness error (never with VIOLATION).
"""
import os
import sys
import json
import time
import hashlib
import argparse
import traceback
import subprocess
import multiprocessing
import faulthandler
from concurrent.futures import ProcessPoolExecutor, wait, FIRST_COMPLETED

VERIF = os.path.dirname(os.path.dirname(os.path.abspath(__file__)))
REPO = os.environ.get('VERIF_REPO', '/repo')


def run_seed(base_seed, prop_id, i):
    h = hashlib.sha256(('%s:%s:%s' % (base_seed, prop_id, i)).encode()).digest()
    return int.from_bytes(h[:6], 'big')


def vkey(v):
    return (v['monitor'], v['signature'])


# ------------------------------------------------------------------ known findings
def load_findings():
    p = os.path.join(VERIF, 'known_findings.json')
    if not os.path.exists(p):
        return []
    with open(p) as f:
        return json.load(f).get('findings', [])


def match_finding(findings, prop_id, v):
    for f in findings:
        if f.get('status') != 'open' or f.get('property') != prop_id:
            continue
        if f.get('monitor') != v['monitor']:
            continue
        sigs = f.get('signatures') or [f.get('signature')]
        if v['signature'] in sigs:
            return f
    return None


# ------------------------------------------------------------------ worker side
_PROP = None
_SLOT = None


def _worker_init(counter):
    # one CPU per worker: the baton hand-off between the simulated threads of a run is then a
    # same-core context switch (cross-core futex wake-ups are ~10x slower on this VM)
    try:
        with counter.get_lock():
            n = counter.value
            counter.value += 1
        cpus = sorted(os.sched_getaffinity(0))
        os.sched_setaffinity(0, {cpus[n % len(cpus)]})
    except Exception:
        pass


def _worker_batch(args):
    prop_id, base_seed, tier, idxs, want_cases = args
    faulthandler.dump_traceback_later(600, exit=True)
    prop = _PROP
    out = {'runs': 0, 'viol': [], 'probes': {}, 'faults': {}, 'digests': [], 'nontrivial': [],
           'ilv': [], 'states': [], 'sim_us': 0, 'lines': 0, 'samples': [], 'errors': [], 'seeds': {},
           'ops': 0}
    for i in idxs:
        seed = run_seed(base_seed, prop_id, i)
        try:
            case = prop.generate(seed, i, tier)
            res = prop.execute(case)
        except Exception:
            out['errors'].append({'i': i, 'seed': seed, 'tb': traceback.format_exc()})
            continue
        out['runs'] += 1
        out['seeds'][i] = res['digest']
        for k_, v_ in res.get('probes', {}).items():
            out['probes'][k_] = out['probes'].get(k_, 0) + v_
        for k_, v_ in res.get('faults', {}).items():
            out['faults'][k_] = out['faults'].get(k_, 0) + v_
        d8 = res['digest'][:16]
        out['digests'].append(d8)
        if res.get('nontrivial'):
            out['nontrivial'].append(d8)
        if res.get('ilv'):
            out['ilv'].append(res['ilv'][:16])
        out['states'].extend(res.get('states', ()))
        out['sim_us'] += res.get('sim_us', 0)
        out['lines'] += res.get('lines', 0)
        out['ops'] += res.get('ops', 0)
        if len(out['samples']) < 2 and res.get('sample') is not None:
            out['samples'].append(res['sample'])
        if res['violations']:
            full = prop.with_recording(case, res)
            seen = set()
            for v in res['violations']:
                if vkey(v) in seen:
                    continue
                seen.add(vkey(v))
                out['viol'].append({'i': i, 'seed': seed, 'v': v, 'case': full, 'digest': res['digest']})
    faulthandler.cancel_dump_traceback_later()
    return out


def _cold_digest(args):
    prop_id, base_seed, tier, i = args
    from . import coldrun

    def one(_):
        seed = run_seed(base_seed, prop_id, i)
        return _PROP.execute(_PROP.generate(seed, i, tier))['digest']
    try:
        return coldrun.run_in_fork(one, None)
    except Exception:
        return None


def _regression_batch(args):
    """Committed cases that once exposed a (now repaired) defect: re-executed on every run."""
    prop_id, paths = args
    out = []
    for p in paths:
        try:
            with open(p) as f:
                doc = json.load(f)
            res = _PROP.execute(doc['case'])
            for v in res['violations']:
                out.append({'i': -1, 'seed': doc.get('seed', 0), 'v': v, 'case': doc['case'], 'digest': res['digest'],
                            'regression': os.path.basename(p)})
        except Exception:
            out.append({'error': p, 'tb': traceback.format_exc()})
    return out


# ------------------------------------------------------------------ minimisation
def minimise(prop, case, target, budget_s=60.0):
    """Greedy delta debugging: accept any candidate that still shows the same (monitor, signature)."""
    t0 = time.time()
    tries = 0
    best = case
    improved = True
    while improved and time.time() - t0 < budget_s:
        improved = False
        for cand in prop.shrink(best):
            if time.time() - t0 > budget_s:
                break
            tries += 1
            try:
                res = prop.execute(cand)
            except Exception:
                continue
            if any(vkey(v) == target for v in res['violations']):
                best = prop.with_recording(cand, res) if prop.RERECORD_ON_SHRINK else cand
                improved = True
                break
    return best, tries


# ------------------------------------------------------------------ main
def main(prop, argv=None):
    global _PROP
    ap = argparse.ArgumentParser(prog='check ' + prop.ID)
    ap.add_argument('--tier', default=os.environ.get('VERIF_TIER', 'quick'))
    ap.add_argument('--replay')
    ap.add_argument('--seed', type=int, default=int(os.environ.get('VERIF_SEED', '0')))
    ap.add_argument('--runs', type=int)
    ap.add_argument('--budget', type=float)
    ap.add_argument('--workers', type=int, default=int(os.environ.get('VERIF_WORKERS', '0')) or min(16, os.cpu_count() or 1))
    ap.add_argument('--no-minimise', action='store_true')
    ap.add_argument('--no-evidence', action='store_true')
    ap.add_argument('--first', type=int, default=0, help='first run index')
    ap.add_argument('--digest-dump', help='write {index: digest} for the determinism self-test')
    ap.add_argument('--keep-going', action='store_true')
    ap.add_argument('--stop-first', action='store_true',
                    help='stop generating runs at the first violation no known finding matches (self-tests)')
    ap.add_argument('--max-report', type=int, default=6)
    ap.add_argument('--no-regressions', action='store_true')
    a = ap.parse_args(argv)
    if a.tier not in ('quick', 'thorough'):
        a.tier = 'quick'
    t_start = time.time()
    try:
        prop.BASE_SEED = a.seed
        prop.setup()
        _PROP = prop
        if a.replay:
            return _replay(prop, a.replay)
        return _explore(prop, a, t_start)
    except SystemExit:
        raise
    except BaseException:
        traceback.print_exc()
        print('HARNESS-ERROR property=%s (see traceback above)' % prop.ID)
        return 2


def _replay(prop, path):
    with open(path) as f:
        doc = json.load(f)
    case = doc['case']
    res = prop.execute(case)
    want = (doc['violation']['monitor'], doc['violation']['signature'])
    hit = [v for v in res['violations'] if vkey(v) == want]
    print('REPLAY file=%s digest_recorded=%s digest_now=%s' % (path, doc.get('digest'), res['digest']))
    if hit:
        print('REPLAY reproduced: %s / %s / %s' % (hit[0]['monitor'], hit[0]['signature'], hit[0]['detail']))
        f = match_finding(load_findings(), prop.ID, hit[0])
        if f is not None:
            print('KNOWN-FINDING: property=%s %s' % (prop.ID, f['what']))
            return 0
        print('VIOLATION property=%s replay=%s' % (prop.ID, path))
        return 1
    if res['violations']:
        print('REPLAY shows other violations: %r' % [vkey(v) for v in res['violations']])
    print('REPLAY: the recorded violation does not occur on this tree')
    return 0


def _explore(prop, a, t_start):
    tier = prop.TIERS[a.tier]
    n_runs = a.runs or tier['runs']
    budget = a.budget or float(os.environ.get('VERIF_BUDGET_S', 0)) or tier['budget_s']
    workers = max(1, a.workers)
    batch = tier.get('batch', 50)
    print('check %s tier=%s VERIF_SEED=%d runs<=%d budget=%ss workers=%d repo=%s' % (
        prop.ID, a.tier, a.seed, n_runs, budget, workers, REPO))
    sys.stdout.flush()
    agg = {'runs': 0, 'viol': [], 'probes': {}, 'faults': {}, 'digests': set(), 'nontrivial': set(),
           'ilv': set(), 'states': set(), 'sim_us': 0, 'lines': 0, 'samples': [], 'errors': [], 'seeds': {},
           'ops': 0}
    ctx = multiprocessing.get_context('fork')
    idx = a.first
    end = a.first + n_runs
    pending = set()
    recheck = []
    harness_error = None
    stop_findings = None
    counter = ctx.Value('i', 0)
    with ProcessPoolExecutor(max_workers=workers, mp_context=ctx, initializer=_worker_init,
                             initargs=(counter,)) as ex:
        def submit(idxs):
            pending.add(ex.submit(_worker_batch, (prop.ID, a.seed, a.tier, idxs, True)))
        reg_dir = os.path.join(VERIF, 'regressions', prop.ID)
        reg_paths = sorted(os.path.join(reg_dir, f) for f in os.listdir(reg_dir) if f.endswith('.json')) \
            if os.path.isdir(reg_dir) and not a.no_regressions else []
        reg_futs = [ex.submit(_regression_batch, (prop.ID, reg_paths[j::8])) for j in range(8) if reg_paths[j::8]]
        try:
            for fut in reg_futs:
                for item in fut.result(timeout=700):
                    if 'error' in item:
                        agg['errors'].append({'i': -1, 'seed': 0, 'tb': item['tb']})
                    else:
                        agg['viol'].append(item)
            agg['regressions_run'] = len(reg_paths)
            while True:
                while idx < end and len(pending) < workers * 2 and time.time() - t_start < budget:
                    idxs = list(range(idx, min(end, idx + batch)))
                    idx += len(idxs)
                    submit(idxs)
                if not pending:
                    break
                done, _ = wait(pending, timeout=700, return_when=FIRST_COMPLETED)
                if not done:
                    harness_error = 'worker batch did not finish within 700s'
                    break
                for fut in done:
                    pending.discard(fut)
                    out = fut.result()
                    _merge(agg, out)
                if agg['viol'] and not a.keep_going and len({vkey(x['v']) for x in agg['viol']}) >= 8:
                    idx = end       # enough distinct violations: stop generating
                if a.stop_first and agg['viol'] and idx < end:
                    if stop_findings is None:
                        stop_findings = load_findings()
                    if any(match_finding(stop_findings, prop.ID, x['v']) is None for x in agg['viol']):
                        idx = end
            # determinism spot check: re-run ~2% of the seeds in another worker process
            if harness_error is None and agg['seeds']:
                keys = sorted(agg['seeds'])
                pick = keys[::max(1, len(keys) // max(1, min(200, len(keys) // 50 + 1)))][:200]
                futs = [ex.submit(_worker_batch, (prop.ID, a.seed, a.tier, pick[j::4], False)) for j in range(4) if pick[j::4]]
                for fut in futs:
                    out = fut.result(timeout=700)
                    for i, d in out['seeds'].items():
                        if agg['seeds'].get(i) != d:
                            # harness or library?  Two executions of that index, each in a fresh fork of this
                            # (never-called-the-library) process, must agree if the harness is deterministic
                            # (forked from this driver process, which has never called the library)
                            c1 = _cold_digest((prop.ID, a.seed, a.tier, i))
                            c2 = _cold_digest((prop.ID, a.seed, a.tier, i))
                            if c1 is not None and c1 == c2:
                                agg['history_dependent'] = agg.get('history_dependent', 0) + 1
                                print('NOTE run index %d gives %s / %s in two warm workers but %s in every cold process: '
                                      'the library\'s behaviour depends on what the process did before' % (
                                          i, agg['seeds'].get(i), d, c1))
                            else:
                                harness_error = 'NONDETERMINISM run index %d: %s vs %s (cold: %s vs %s)' % (
                                    i, agg['seeds'].get(i), d, c1, c2)
                    agg['errors'].extend(out['errors'])
                agg['recheck'] = len(pick)
        except Exception as e:
            harness_error = 'pool failure: %r' % (e,)
            traceback.print_exc()
    if a.digest_dump:
        with open(a.digest_dump, 'w') as f:
            json.dump({str(k): v for k, v in sorted(agg['seeds'].items())}, f)
    if agg['errors'] and harness_error is None:
        harness_error = 'exception inside the harness for run %d seed %d:\n%s' % (
            agg['errors'][0]['i'], agg['errors'][0]['seed'], agg['errors'][0]['tb'])
    wall = time.time() - t_start
    # ---- triage
    findings = load_findings()
    known_hits = {}
    new = {}
    for x in agg['viol']:
        f = match_finding(findings, prop.ID, x['v'])
        if f is not None:
            known_hits.setdefault(f['id'], [f, 0])[1] += 1
        else:
            new.setdefault(vkey(x['v']), x)
    rc = 0
    reported = []
    for fid, (f, n) in sorted(known_hits.items()):
        print('KNOWN-FINDING: property=%s %s  [%s, matched %d times]' % (prop.ID, f['what'], fid, n))
    if harness_error is None:
        for key, x in sorted(new.items(), key=lambda kv: kv[1]['i'])[:a.max_report]:
            path = _report(prop, x, a)
            reported.append({'monitor': key[0], 'signature': key[1], 'replay': path, 'run_index': x['i']})
            print('VIOLATION property=%s replay=%s' % (prop.ID, path))
            print('  monitor=%s signature=%s detail=%s' % (key[0], key[1], x['v']['detail'][:300]))
            rc = 1
    # acceptance test of the check itself: required probes must have fired
    missing = [p for p in prop.required_probes(a.tier) if not agg['probes'].get(p) and not agg['faults'].get(p)]
    if not a.no_evidence:
        _write_evidence(prop, a, agg, wall, len(new), known_hits, missing, reported)
    print('%s: %d runs in %.1fs (%.0f runs/h), %d distinct non-trivial, %d new violation classes, %d known-finding classes' % (
        prop.ID, agg['runs'], wall, agg['runs'] / max(wall, 1e-9) * 3600, len(agg['nontrivial']), len(new), len(known_hits)))
    if new:
        idxs = sorted(x['i'] for x in agg['viol'] if x['i'] >= 0 and match_finding(findings, prop.ID, x['v']) is None)
        print('%s: %d violating runs seen, the first at run index %s' % (prop.ID, len(idxs), idxs[0] if idxs else 'regression case'))
    if harness_error is not None:
        print('HARNESS-ERROR property=%s %s' % (prop.ID, harness_error))
        return 2
    if missing and rc == 0 and a.runs is None and a.first == 0:
        print('HARNESS-ERROR property=%s reach probes stuck at zero: %s' % (prop.ID, ', '.join(missing)))
        return 2
    return rc


def _merge(agg, out):
    agg['runs'] += out['runs']
    agg['viol'].extend(out['viol'])
    for k_, v_ in out['probes'].items():
        agg['probes'][k_] = agg['probes'].get(k_, 0) + v_
    for k_, v_ in out['faults'].items():
        agg['faults'][k_] = agg['faults'].get(k_, 0) + v_
    agg['digests'].update(out['digests'])
    agg['nontrivial'].update(out['nontrivial'])
    agg['ilv'].update(out['ilv'])
    agg['states'].update(out['states'])
    agg['sim_us'] += out['sim_us']
    agg['lines'] += out['lines']
    agg['ops'] += out['ops']
    agg['errors'].extend(out['errors'])
    agg['seeds'].update(out['seeds'])
    for s in out['samples']:
        if len(agg['samples']) < 3:
            agg['samples'].append(s)


def _report(prop, x, a):
    d = os.path.join(VERIF, 'replays', prop.ID)
    os.makedirs(d, exist_ok=True)
    key = vkey(x['v'])
    tag = hashlib.sha1(repr(key).encode()).hexdigest()[:8]
    raw_path = os.path.join(d, '%d-%s.raw.json' % (x['seed'], tag))
    doc = {'property': prop.ID, 'world': prop.WORLD, 'verif_seed': a.seed, 'run_index': x['i'], 'seed': x['seed'],
           'violation': x['v'], 'digest': x['digest'], 'case': x['case'], 'minimised': False}
    with open(raw_path, 'w') as f:
        json.dump(doc, f, indent=1, sort_keys=True, default=str)
    path = raw_path
    if not a.no_minimise:
        try:
            small, tries = minimise(prop, x['case'], key, budget_s=prop.MINIMISE_BUDGET_S)
            res = prop.execute(small)
            hit = [v for v in res['violations'] if vkey(v) == key]
            if hit:
                doc2 = dict(doc, case=small, violation=hit[0], digest=res['digest'], minimised=True,
                            minimise_tries=tries)
                path = os.path.join(d, '%d-%s.json' % (x['seed'], tag))
                with open(path, 'w') as f:
                    json.dump(doc2, f, indent=1, sort_keys=True, default=str)
        except Exception:
            traceback.print_exc()
    # replay once in a fresh interpreter; it must reproduce
    try:
        env = dict(os.environ)
        env['PYTHONHASHSEED'] = '0'
        p = subprocess.run([os.path.join(VERIF, 'check'), prop.ID, '--replay', path], capture_output=True,
                           text=True, timeout=300, env=env)
        if 'REPLAY reproduced' not in p.stdout:
            print('  (warning: fresh-process replay of %s did not reproduce; falling back to the raw file)' % path)
            path = raw_path
    except Exception as e:
        print('  (warning: replay subprocess failed: %r)' % (e,))
    return path


def _write_evidence(prop, a, agg, wall, n_new, known_hits, missing, reported):
    cov = {
        'evaluations': agg['runs'],
        'distinct_nontrivial': len(agg['nontrivial']),
        'rule': prop.RULE,
        'samples': agg['samples'][:3] or [{'note': 'no sample recorded'}],
        'runs': agg['runs'],
        'runs_per_hour': int(agg['runs'] / max(wall, 1e-9) * 3600),
        'seeds': {'VERIF_SEED': a.seed, 'first_run_index': a.first, 'last_run_index': a.first + agg['runs'] - 1,
                  'derivation': 'sha256("VERIF_SEED:%s:index")[:6]' % prop.ID},
        'distinct_run_digests': len(agg['digests']),
        'interleavings_distinct': len(agg['ilv']),
        'states_distinct': len(agg['states']),
        'sim_time_s': round(agg['sim_us'] / 1e6, 3) if prop.HAS_CLOCK else 'none (no clock in this world)',
        'instrumented_line_events': agg['lines'],
        'operations': agg['ops'],
        'faults_fired': dict(sorted(agg['faults'].items())),
        'probes': dict(sorted(agg['probes'].items())),
        'probes_stuck_at_zero': missing,
        'determinism_rechecked_runs': agg.get('recheck', 0),
        'regression_cases_rerun': agg.get('regressions_run', 0),
        'runs_whose_outcome_depended_on_process_history': agg.get('history_dependent', 0),
        'components': prop.COMPONENTS,
        'known_findings_matched': {fid: n for fid, (f, n) in sorted(known_hits.items())},
        'violations_reported': reported,
        'exhaustive': False,
    }
    cov.update(prop.extra_coverage(agg))
    ev = {
        'property_id': prop.ID,
        'tier': a.tier,
        'seed': a.seed,
        'level': 'exploration',
        'coverage': cov,
        'assumptions': prop.ASSUMPTIONS,
        'wall_s': round(wall, 2),
        'violations': n_new,
    }
    os.makedirs(os.path.join(VERIF, 'evidence'), exist_ok=True)
    with open(os.path.join(VERIF, 'evidence', prop.ID + '.json'), 'w') as f:
        json.dump(ev, f, indent=1, sort_keys=True, default=str)
