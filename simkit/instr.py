"""Which hl7apy code is pre-emptible (DESIGN §3.1) and which functions are touch points."""
import importlib

from . import kernel as K

_done = False

# functions that read or write process-global state: the scheduler biases switches to them
TOUCH = {
    'hl7apy': ['get_default_encoding_chars', 'get_default_version', 'get_default_validation_level',
               'set_default_validation_level', 'set_default_version', 'set_default_encoding_chars',
               'load_library', 'load_reference', 'find_reference'],
    'hl7apy.core': ['is_base_datatype', 'ElementFinder.get_structure', 'ElementFinder._parse_structure'],
    'hl7apy.factories': ['datatype_factory'],
    'hl7apy.base_datatypes': ['TextualDataType.to_er7', 'TextualDataType._escape_value',
                              'BaseDataType.__init__'],
    'hl7apy.mllp': ['MLLPRequestHandler.handle', 'MLLPRequestHandler._route_message',
                    'MLLPRequestHandler._create_handler', 'MLLPRequestHandler._create_error_handler',
                    'MLLPRequestHandler.setup'],
}

# only ever called at import time, while the import lock is held: never pre-empt inside them
EXCLUDE = ('_load_base_datatypes', '_discover_libraries')


def instrument_hl7apy():
    global _done
    if _done:
        return
    import hl7apy
    import hl7apy.core as _core
    from .util import Frozen
    # the only wall-clock read in the library (MSH-7 stamp): frozen for the whole process, so that
    # generation, reference passes and simulated runs all see the same constant
    _core.datetime = Frozen.datetime_module()
    mods = ['hl7apy', 'hl7apy.core', 'hl7apy.parser', 'hl7apy.factories', 'hl7apy.base_datatypes',
            'hl7apy.validation', 'hl7apy.utils', 'hl7apy.mllp', 'hl7apy.exceptions']
    for v in sorted(hl7apy.SUPPORTED_LIBRARIES.values()):
        mods.append(v)
    for name in mods:
        m = importlib.import_module(name)
        K.instrument(K.code_objects_of(m, EXCLUDE))
    try:
        m = importlib.import_module('hl7apy.v2_7.base_datatypes')
        K.instrument(K.code_objects_of(m, EXCLUDE))
    except ImportError:
        pass
    for v in sorted(hl7apy.SUPPORTED_LIBRARIES.values()):
        m = importlib.import_module(v)
        for fn in ('get', 'find', 'is_base_datatype', 'get_base_datatypes'):
            f = getattr(m, fn, None)
            if f is not None:
                K.mark_touch({f.__code__})
    # every function of the two modules that own process-wide state is a touch point, so that
    # functions added there later (caches, memos) are biased too without being listed by name
    for modname in ('hl7apy', 'hl7apy.factories', 'hl7apy.utils'):
        # (utils: the date/time helpers every factory call goes through -- where a memo would be put)
        codes = K.code_objects_of(importlib.import_module(modname), EXCLUDE)
        K.mark_touch(codes)
        K.mark_strong(codes)
    for v in sorted(hl7apy.SUPPORTED_LIBRARIES.values()):
        K.mark_strong(K.code_objects_of(importlib.import_module(v), EXCLUDE))
    import hl7apy.core as core
    lookup = set()
    for cls in (core.Element, core.SupportComplexDataType, core.CanBeVaries, core.SubComponent, core.Component, core.Field,
                core.Segment, core.Group, core.Message):
        for nm in ('find_child_reference', '_find_structure', 'parse_child', 'parse_children', '_is_valid_child'):
            f = cls.__dict__.get(nm)
            if f is not None and hasattr(f, '__code__'):
                lookup.add(f.__code__)
    for nm in ('create_element', 'set', '_find_name', '_default_child_lookup', 'child_at_index', '_can_add_child'):
        lookup.add(core.ElementList.__dict__[nm].__code__)
    for nm in ('get_structure', '_parse_structure'):
        lookup.add(core.ElementFinder.__dict__[nm].__func__.__code__)
    # encoding a textual value orders its highlight ranges (base_datatypes.py:160, an anchor of C19)
    bd = K.code_objects_of(importlib.import_module('hl7apy.base_datatypes'), EXCLUDE)
    lookup |= set(bd)
    K.mark_touch(bd)
    K.mark_lookup(lookup)
    for modname, names in TOUCH.items():
        m = importlib.import_module(modname)
        for qual in names:
            o = m
            for part in qual.split('.'):
                o = getattr(o, part, None)
                if o is None:
                    break
            if o is None:
                continue
            if isinstance(o, (staticmethod, classmethod)):
                o = o.__func__
            code = getattr(o, '__code__', None)
            if code is not None:
                K.mark_touch({code})
    _done = True
