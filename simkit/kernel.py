"""Simulation kernel: simulated clock, event heap, baton-passed real threads pre-empted at
source-line granularity through sys.monitoring (PEP 669), schedules recorded as data.

Exactly one simulated thread holds the baton at any instant; the scheduler (the thread that
calls Kernel.run) decides who runs next and for how many instrumented line events.  A run is a
pure function of (world program, fault plan, schedule).
"""
import sys
import heapq
import hashlib
import random
import threading
import faulthandler

WATCHDOG_S = 30.0          # real seconds: only a harness bug or a genuine hang ever reaches it
INF = 1 << 60

NEW, RUNNABLE, RUNNING, BLOCKED, DONE = 'new', 'runnable', 'running', 'blocked', 'done'


class HarnessError(Exception):
    """The machinery failed (hang watchdog, protocol error). Never a property violation."""


class SimAbort(BaseException):
    """Raised inside a parked simulated thread to unwind it when the world is torn down."""


def derive_rng(seed, stream):
    h = hashlib.sha256(('%s:%s' % (seed, stream)).encode()).digest()
    return random.Random(int.from_bytes(h[:8], 'big'))


# --------------------------------------------------------------------------------------------
# sys.monitoring plumbing (one tool id for the whole process, callbacks consult the live kernel)
# --------------------------------------------------------------------------------------------
_MON = sys.monitoring
TOOL_ID = 4
_K = None                 # the live kernel (at most one per process at a time)
_instrumented = {}        # code object -> 'line'
_touch_codes = set()      # code objects that read/write process-global state
_strong_codes = set()     # functions of the modules that own process-wide state (enumerated switch points)
_lookup_codes = set()     # the structure-lookup layer of core.py (find_child_reference & its callers)
_tool_claimed = False


line_hook = None          # single-threaded worlds: called on every instrumented line event
start_hook = None         # called on PY_START of the code objects registered with watch_starts()
_start_codes = set()


def _on_start(code, offset):
    h = start_hook
    if h is not None:
        h(code)


def watch_starts(codes):
    _claim_tool()
    for c in codes:
        if c not in _start_codes:
            ev = _MON.events.PY_START | (_MON.events.LINE if c in _instrumented else 0)
            _MON.set_local_events(TOOL_ID, c, ev)
            _start_codes.add(c)


_global_lines = False      # cold-import runs: LINE events for every code object, filtered here
_lib_dir = None


def enable_global_lines(lib_dir):
    """Cold-import runs (only ever in a forked child that exits afterwards): module-level code of the
    library is created at import time, so it cannot be instrumented beforehand.  Turn LINE events on
    globally and switch them off again, location by location, for everything outside the library."""
    global _global_lines, _lib_dir
    _claim_tool()
    _lib_dir = lib_dir
    _global_lines = True
    _MON.set_events(TOOL_ID, _MON.events.LINE)


def _on_line(code, line):
    h = line_hook
    if h is not None:
        h(code, line)
        return
    if _global_lines and code not in _instrumented:
        if not code.co_filename.startswith(_lib_dir):
            return _MON.DISABLE
        if code.co_name == '<module>':
            _strong_codes.add(code)
    k = _K
    if k is None:
        return
    t = k.current
    if t is None:
        return
    k.lines += 1
    t.lines += 1
    b = t.budget - 1
    if k.sweep_lookup_at is not None and t.tid == 0 and code in _lookup_codes:
        n = k.sweep_lookup_count
        k.sweep_lookup_count = n + 1
        if n == k.sweep_lookup_at:
            k.sweep_lookup_at = None
            t.hold_until = INF
            k.deep_holds += 1
            k.sweep_hit = (code.co_qualname, line)
            t.budget = 0
            t.last_pos = (code.co_qualname, line)
            t.preempt()
            return
    if k.sweep_thread_lines is not None and t.tid == 0 and t.lines == k.sweep_thread_lines:
        # fractional sweep: the first actor is pre-empted after exactly that many of its own line events
        k.sweep_thread_lines = None
        t.hold_until = INF
        k.deep_holds += 1
        k.sweep_hit = (code.co_qualname, line)
        t.budget = 0
        t.last_pos = (code.co_qualname, line)
        t.preempt()
        return
    if k.sweep_at is not None and code in _strong_codes:
        n = k.sweep_count
        k.sweep_count = n + 1
        if n == k.sweep_at:
            # enumerated forced switch: pre-empt exactly here and let everybody else run through
            t.hold_until = INF
            k.deep_holds += 1
            k.sweep_hit = (code.co_qualname, line)
            t.budget = 0
            t.last_pos = (code.co_qualname, line)
            t.preempt()
            return
    if k.touch_p and b > 2 and code in _touch_codes and k.touch_rng.random() < k.touch_p:
        b = k.touch_rng.randrange(0, 3)
        k.touch_cuts += 1
        if k.touch_cuts in k.deep_hold_at:
            # PCT-style priority change point: this thread stays off the CPU until every other
            # thread has finished, blocked or been held too -- the others run *through* the window
            t.hold_until = INF
            k.deep_holds += 1
    t.budget = b
    if b <= 0 or k.lines >= k.max_lines:
        t.last_pos = (code.co_qualname, line)
        t.preempt()


def _claim_tool():
    global _tool_claimed
    if not _tool_claimed:
        if _MON.get_tool(TOOL_ID) is None:
            _MON.use_tool_id(TOOL_ID, 'hl7apy-verif-sim')
        _MON.register_callback(TOOL_ID, _MON.events.LINE, _on_line)
        _MON.register_callback(TOOL_ID, _MON.events.PY_START, _on_start)
        _tool_claimed = True


def _walk_code(code, out):
    if code in out:
        return
    out.add(code)
    for c in code.co_consts:
        if hasattr(c, 'co_code'):
            _walk_code(c, out)


def code_objects_of(obj, exclude_names=()):
    """All code objects (functions, methods, properties, nested closures/lambdas) defined in a
    module or class.  Module-level code itself is never included."""
    import types
    out = set()
    seen = set()

    def visit(o, modname):
        if id(o) in seen:
            return
        seen.add(id(o))
        if isinstance(o, (staticmethod, classmethod)):
            o = o.__func__
        if isinstance(o, property):
            for f in (o.fget, o.fset, o.fdel):
                if f is not None:
                    visit(f, modname)
            return
        if isinstance(o, types.FunctionType):
            if o.__module__ == modname and o.__name__ not in exclude_names:
                _walk_code(o.__code__, out)
            return
        if isinstance(o, type):
            if o.__module__ == modname:
                for v in list(vars(o).values()):
                    visit(v, modname)
            return

    if isinstance(obj, types.ModuleType):
        for v in list(vars(obj).values()):
            visit(v, obj.__name__)
    else:
        for v in list(vars(obj).values()):
            visit(v, obj.__module__)
    return out


def instrument(codes, touch=False):
    _claim_tool()
    for c in codes:
        if c not in _instrumented:
            ev = _MON.events.LINE | (_MON.events.PY_START if c in _start_codes else 0)
            _MON.set_local_events(TOOL_ID, c, ev)
            _instrumented[c] = 'line'
        if touch:
            _touch_codes.add(c)


def mark_touch(codes):
    for c in codes:
        _touch_codes.add(c)


def mark_strong(codes):
    for c in codes:
        _strong_codes.add(c)


def mark_lookup(codes):
    for c in codes:
        _lookup_codes.add(c)


def instrumented_count():
    return len(_instrumented)


# --------------------------------------------------------------------------------------------
class SimThread(threading.Thread):
    """A real thread that only ever runs while it holds the kernel's baton."""

    def __init__(self, kernel, target, args=(), kwargs=None, label=''):
        super().__init__(daemon=True)
        self.k = kernel
        self.fn = target
        self.fn_args = args
        self.fn_kwargs = kwargs or {}
        self.label = label
        self.tid = None
        self.state = NEW
        self.sem = threading.Semaphore(0)
        self.budget = 0
        self.lines = 0
        self.switches = 0
        self.wake = None          # callable -> bool, evaluated by the scheduler
        self.deadline = None      # simulated time at which a blocked call times out
        self.timed_out = False
        self.abort = False
        self.exc = None
        self.stall_us = 0
        self.hold_until = 0
        self.last_pos = None
        self.block_what = None

    # -- called from the creating context (scheduler, or a running sim thread) --
    def start(self):
        self.k._register(self)
        super().start()

    def run(self):
        self.sem.acquire()
        try:
            if not self.abort:
                self.fn(*self.fn_args, **self.fn_kwargs)
        except SimAbort:
            pass
        except BaseException as e:      # noqa - recorded, the world decides what it means
            self.exc = e
        finally:
            self.state = DONE
            self.k.current = None
            self.k.sched_sem.release()

    # -- called from inside the thread itself --
    def preempt(self):
        self.state = RUNNABLE
        self._park()

    def block(self, wake, deadline=None, what=''):
        """Park until wake() is true (-> returns True) or simulated time reaches deadline
        (-> returns False)."""
        if wake():
            return True
        self.wake = wake
        self.deadline = deadline
        self.block_what = what
        self.timed_out = False
        self.state = BLOCKED
        self._park()
        self.wake = None
        self.deadline = None
        return not self.timed_out

    def _park(self):
        k = self.k
        k.current = None
        k.sched_sem.release()
        self.sem.acquire()
        if self.abort:
            raise SimAbort()


class Kernel:
    def __init__(self, schedule=None, sched_rng=None, mean_budget=200, touch_p=0.0,
                 max_decisions=20000, max_lines=5_000_000, max_sim_us=3600 * 10**6):
        """schedule: list of [tid, lines] to replay; else sched_rng draws one on the fly."""
        global _K
        self.now = 0
        self.seq = 0
        self.heap = []
        self.threads = []
        self.current = None
        self.sched_sem = threading.Semaphore(0)
        self.lines = 0
        self.decisions = 0
        self.log = []
        self.replay_schedule = list(schedule) if schedule is not None else None
        self.replay_pos = 0
        self.sched_rng = sched_rng
        self.touch_rng = sched_rng
        self.touch_p = touch_p if schedule is None else 0.0
        self.touch_cuts = 0
        self.deep_hold_at = ()
        self.deep_holds = 0
        self.sweep_at = None          # index of the strong-touch line event at which to force a switch
        self.sweep_count = 0
        self.sweep_thread_lines = None  # pre-empt thread 0 after exactly this many of its line events
        self.sweep_lookup_at = None     # ... or at its n-th line event inside the lookup layer
        self.sweep_lookup_count = 0
        self.sweep_hit = None
        self.import_waits = 0         # times a thread waited (through the baton) for a module import lock
        self.mean_budget = mean_budget
        self.recorded = []            # [[tid, lines_actually_run], ...]
        self.max_decisions = max_decisions
        self.max_lines = max_lines
        self.max_sim_us = max_sim_us
        self.capped = None
        self.switch_trace = hashlib.sha1()
        self.lib_switches = 0         # pre-emptions that landed inside instrumented code
        self.live_switches = 0        # ... while >= 2 threads were live
        self.on_preempt = None        # called by the scheduler after a pre-emption, with the thread
        self.on_step = None           # invariant hook, called after every scheduling decision/event
        self.stall_p = 0.0            # probability of letting time pass while threads are runnable
        self.stall_rng = None
        self.stalls = 0
        self.hung = False
        _K = self

    # ---------------------------------------------------------------- logging
    def record(self, kind, *payload):
        t = self.current
        self.log.append((len(self.log), self.now, t.tid if t is not None else -1, kind) + payload)

    def digest(self):
        h = hashlib.sha1()
        for e in self.log:
            h.update(repr(e).encode('utf-8', 'backslashreplace'))
            h.update(b'\n')
        return h.hexdigest()

    # ---------------------------------------------------------------- threads / events
    def _register(self, t):
        t.tid = len(self.threads)
        self.threads.append(t)
        t.state = RUNNABLE

    def spawn(self, fn, args=(), label=''):
        t = SimThread(self, fn, args, label=label)
        t.start()
        return t

    def at(self, when, fn, label=''):
        self.seq += 1
        heapq.heappush(self.heap, (when, self.seq, label, fn))

    def after(self, delay, fn, label=''):
        self.at(self.now + delay, fn, label)

    # ---------------------------------------------------------------- running one segment
    def _run_thread(self, t, budget):
        before = t.lines
        t.budget = budget
        t.state = RUNNING
        self.current = t
        t.sem.release()
        if not self.sched_sem.acquire(timeout=WATCHDOG_S):
            self.hung = True
            faulthandler.dump_traceback(file=sys.stderr, all_threads=True)
            raise HarnessError('watchdog: simulated thread %d did not yield within %ss'
                               % (t.tid, WATCHDOG_S))
        used = t.lines - before
        # replaying "n" means: run until n line events have fired.  A pre-empted thread fired
        # exactly its budget; one that blocked or ended fired fewer and needs n > used.
        self.recorded.append([t.tid, used if t.state == RUNNABLE else used + 1])
        if t.state == RUNNABLE:      # pre-empted inside instrumented code
            self.lib_switches += 1
            live = sum(1 for x in self.threads if x.state in (RUNNABLE, BLOCKED))
            if live >= 2:
                self.live_switches += 1
            self.switch_trace.update(('%d:%s;' % (t.tid, t.last_pos)).encode())
            if self.on_preempt:
                self.on_preempt(t)
        else:
            self.switch_trace.update(('%d:%s;' % (t.tid, t.state)).encode())
        return used

    def _wake_blocked(self):
        for t in self.threads:
            if t.state == BLOCKED:
                if t.wake():
                    t.state = RUNNABLE
                elif t.deadline is not None and self.now >= t.deadline:
                    t.timed_out = True
                    t.state = RUNNABLE

    def _draw_budget(self):
        m = self.mean_budget
        if m is None:
            return INF
        # geometric with mean m
        r = self.sched_rng.random()
        import math
        return 1 + int(math.log(1.0 - r) / math.log(1.0 - 1.0 / (m + 1))) if m > 0 else 1

    def _pick(self, runnable):
        """-> (thread, budget), or 'stall' (let simulated time pass to the next event although
        threads could run: the slow-node fault)."""
        if self.replay_schedule is not None:
            while self.replay_pos < len(self.replay_schedule):
                tid, n = self.replay_schedule[self.replay_pos]
                self.replay_pos += 1
                if tid == -1:
                    if self.heap and self.heap[0][0] > self.now:
                        return 'stall'
                    continue
                for t in runnable:
                    if t.tid == tid:
                        return t, (n if n > 0 else 1)
                # names a thread that is not runnable now: skipped
            t = min(runnable, key=lambda x: x.tid)
            return t, INF
        if self.stall_p and self.heap and self.heap[0][0] > self.now and \
                self.stall_rng.random() < self.stall_p:
            return 'stall'
        if self.sweep_thread_lines is not None or self.sweep_lookup_at is not None:
            # a forced switch of actor 0 is pending: actor 0 runs up to it first, or the others may
            # already have finished when it is parked and the switch decides nothing
            for t in runnable:
                if t.tid == 0:
                    return t, self._draw_budget()
        if (self.deep_hold_at or self.sweep_at is not None or self.deep_holds) and len(runnable) > 1:
            free = [t for t in runnable if t.hold_until <= self.lines]
            if free:
                runnable = free
            else:
                for t in runnable:      # everybody is held: release them all
                    t.hold_until = 0
        t = runnable[self.sched_rng.randrange(len(runnable))] if len(runnable) > 1 else runnable[0]
        return t, self._draw_budget()

    # ---------------------------------------------------------------- main loop
    def run(self):
        while True:
            if self.decisions >= self.max_decisions:
                self.capped = 'decisions'
                break
            if self.lines >= self.max_lines:
                self.capped = 'lines'
                break
            if self.now > self.max_sim_us:
                self.capped = 'sim_time'
                break
            # 1. events due now fire first (in (time, seq) order)
            if self.heap and self.heap[0][0] <= self.now:
                when, seq, label, fn = heapq.heappop(self.heap)
                fn()
                if self.on_step:
                    self.on_step()
                continue
            self._wake_blocked()
            runnable = [t for t in self.threads if t.state == RUNNABLE]
            if runnable:
                self.decisions += 1
                choice = self._pick(runnable)
                if choice == 'stall':
                    # never jump past the deadline of a blocked thread: its timeout fires on time
                    nxt = self._next_instant()
                    d = nxt - self.now
                    if d > 0:
                        for t in runnable:
                            t.stall_us += d
                        self.stalls += 1
                        self.recorded.append([-1, 0])
                        self.record('stall', d, tuple(t.tid for t in runnable))
                        self.now = nxt
                    continue
                t, budget = choice
                self._run_thread(t, budget)
                if self.on_step:
                    self.on_step()
                continue
            # 2. nothing runnable: jump the clock to the next event or deadline
            nxt = self._next_instant()
            if nxt is None:
                break
            if nxt > self.now:
                self.now = nxt
        return self.capped

    def _next_instant(self):
        nxt = self.heap[0][0] if self.heap else None
        for t in self.threads:
            if t.state == BLOCKED and t.deadline is not None:
                if nxt is None or t.deadline < nxt:
                    nxt = t.deadline
        return nxt

    def blocked_threads(self):
        return [t for t in self.threads if t.state == BLOCKED]

    def live_threads(self):
        return [t for t in self.threads if t.state in (RUNNABLE, BLOCKED)]

    def shutdown(self):
        """Unwind every thread that is still parked; join all."""
        global _K
        for t in self.threads:
            guard = 0
            while t.state in (RUNNABLE, BLOCKED, NEW) and t.is_alive():
                t.abort = True
                t.budget = INF
                t.state = RUNNING
                self.current = t
                t.sem.release()
                if not self.sched_sem.acquire(timeout=WATCHDOG_S):
                    faulthandler.dump_traceback(file=sys.stderr, all_threads=True)
                    raise HarnessError('watchdog during shutdown (thread %d)' % t.tid)
                guard += 1
                if guard > 1000:
                    raise HarnessError('thread %d does not unwind' % t.tid)
        for t in self.threads:
            t.join(timeout=WATCHDOG_S)
            if t.is_alive():
                raise HarnessError('thread %d did not exit' % t.tid)
        self.current = None
        if _K is self:
            _K = None


def current_thread():
    k = _K
    return k.current if k is not None else None
