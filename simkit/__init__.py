"""Deterministic simulation kit for hl7apy verification (see /verif/DESIGN.md §3)."""
