"""Simulated TCP: a reliable, ordered byte stream per connection with blocking calls and
timeouts on the simulated clock.  The server side object is duck-typed after socket.socket
closely enough for socketserver + socket.SocketIO + io.BufferedReader to run unmodified on it
(including the deferred close while a makefile() object is still open).
"""
import io
import errno
import socket as _real_socket
import threading as _real_threading

from . import kernel as K

US = 1_000_000


class SimConn:
    """Both directions of one connection + everything the oracle needs to know about it."""

    def __init__(self, net, cid):
        self.net = net
        self.cid = cid
        self.c2s = bytearray()        # bytes sent by the client, not yet received by the server
        self.c2s_total = 0
        self.client_wr_closed = False  # client half-closed or closed (server sees EOF after c2s drains)
        self.client_reset = False      # client aborted: server calls raise ConnectionResetError
        self.client_closed = False     # client will read nothing more
        self.s2c = bytearray()         # bytes written by the server, not yet read by the client
        self.s2c_cap = None            # None = unbounded send buffer
        self.client_got = bytearray()  # bytes the client has read
        self.client_saw_eof = False
        self.server_wr_shut = False
        self.server_closed = 0         # number of real closes (must end up 1)
        self.server_sock = None
        self.thread = None
        self.auto_read = True          # client drains s2c as soon as bytes are there
        self.events = []               # (time, kind, n) for the oracle / samples
        self.arrivals = []             # (time, nbytes) client->server deliveries
        self.connect_at = None

    # ---- client side (called from scheduler events) ----
    def client_send(self, data):
        if self.client_wr_closed or self.client_reset:
            return
        self.arrivals.append((self.net.k.now, len(data)))
        if self.server_closed:
            return                    # goes nowhere
        self.c2s += data
        self.c2s_total += len(data)
        self.net.k.record('c.send', self.cid, len(data))

    def client_half_close(self):
        self.client_wr_closed = True
        self.net.k.record('c.shutwr', self.cid)

    def client_close(self):
        self.client_wr_closed = True
        self.client_closed = True
        self.net.k.record('c.close', self.cid)

    def client_abort(self):
        self.client_reset = True
        self.client_closed = True
        self.net.k.record('c.reset', self.cid)

    def client_read(self, n=None):
        if self.client_closed:
            return
        if n is None:
            n = len(self.s2c)
        if n and self.s2c:
            chunk = bytes(self.s2c[:n])
            del self.s2c[:n]
            self.client_got += chunk
            self.net.k.record('c.read', self.cid, len(chunk))
        if not self.s2c and (self.server_wr_shut or self.server_closed):
            if not self.client_saw_eof:
                self.client_saw_eof = True
                self.net.k.record('c.eof', self.cid)

    def _after_server_write(self):
        if self.auto_read:
            self.client_read()


class SimSocket:
    """Server-side endpoint of a SimConn."""

    def __init__(self, conn):
        self._conn = conn
        self._timeout = None
        self._closed = False
        self._io_refs = 0
        self._real_closed = False
        conn.server_sock = self

    # ---- plumbing socketserver touches ----
    def settimeout(self, t):
        self._timeout = t

    def gettimeout(self):
        return self._timeout

    def setsockopt(self, *a):
        pass

    def fileno(self):
        if self._real_closed:
            return -1
        return 1000 + self._conn.cid

    def getpeername(self):
        return ('sim-client', self._conn.cid)

    def makefile(self, mode='r', buffering=None, **kw):
        if not set(mode) <= {'r', 'w', 'b'}:
            raise ValueError('invalid mode %r' % mode)
        raw = _real_socket.SocketIO(self, mode if 'b' in mode else mode + 'b')
        self._io_refs += 1
        if buffering is None or buffering < 0:
            buffering = io.DEFAULT_BUFFER_SIZE
        if buffering == 0:
            return raw
        if 'r' in mode and 'w' in mode:
            return io.BufferedRWPair(raw, raw, buffering)
        if 'r' in mode:
            return io.BufferedReader(raw, buffering)
        return io.BufferedWriter(raw, buffering)

    def _decref_socketios(self):
        if self._io_refs > 0:
            self._io_refs -= 1
        if self._closed:
            self.close()

    def close(self):
        self._closed = True
        if self._io_refs <= 0:
            self._real_close()

    def _real_close(self):
        c = self._conn
        if self._real_closed:
            return                # closing a closed socket again is a no-op, as for a real one
        self._real_closed = True
        c.server_closed += 1
        c.net.k.record('s.close', c.cid, c.server_closed)
        c.events.append((c.net.k.now, 'close', 0))
        if c.auto_read:
            c.client_read()

    def shutdown(self, how):
        if self._real_closed:
            raise OSError(errno.EBADF, 'Bad file descriptor')
        c = self._conn
        if how in (_real_socket.SHUT_WR, _real_socket.SHUT_RDWR):
            c.server_wr_shut = True
            c.net.k.record('s.shutwr', c.cid)
            if c.auto_read:
                c.client_read()

    # ---- blocking calls ----
    def _thread(self):
        t = K.current_thread()
        if t is None:
            raise K.HarnessError('socket call outside a simulated thread')
        return t

    def _deadline(self):
        if self._timeout is None:
            return None
        return self._conn.net.k.now + int(self._timeout * US)

    def _recv(self, n, what):
        if self._real_closed:
            raise OSError(errno.EBADF, 'Bad file descriptor')
        c = self._conn
        net = c.net
        t = self._thread()
        net.k.record('s.' + what + '?', c.cid, n)
        if not (c.c2s or c.client_wr_closed or c.client_reset):
            net.probe('recv_blocked')
            ok = t.block(lambda: bool(c.c2s) or c.client_wr_closed or c.client_reset,
                         self._deadline(), what)
            if not ok:
                net.k.record('s.timeout', c.cid, what)
                net.fault('recv_timeout')
                c.events.append((net.k.now, 'timeout', 0))
                raise _real_socket.timeout('timed out')
        if c.client_reset:
            net.fault('conn_reset_on_recv')
            raise ConnectionResetError(errno.ECONNRESET, 'Connection reset by peer')
        if not c.c2s:
            net.k.record('s.recv=', c.cid, 0)
            if n > 0:
                net.probe('recv_eof')
            return b''
        avail = len(c.c2s)
        take = min(n, avail)
        if take > 1:
            v = net.decide('short_recv', take)
            if v:
                take = v
                net.fault('short_recv')
        data = bytes(c.c2s[:take])
        del c.c2s[:take]
        net.k.record('s.recv=', c.cid, take)
        return data

    def recv(self, n, flags=0):
        data = self._recv(n, 'recv')
        self._conn.net.on_raw_recv(self._conn, n, data)
        return data

    def recv_into(self, buf, nbytes=0, flags=0):
        mv = memoryview(buf)
        n = nbytes or len(mv)
        data = self._recv(n, 'recv_into')
        mv[:len(data)] = data
        return len(data)

    def send(self, data, flags=0):
        return self._send(bytes(data), all_=False)

    def sendall(self, data, flags=0):
        self._send(bytes(data), all_=True)

    def _send(self, data, all_):
        if self._real_closed:
            raise OSError(errno.EBADF, 'Bad file descriptor')
        c = self._conn
        net = c.net
        t = self._thread()
        net.k.record('s.send?', c.cid, len(data))
        sent = 0
        while True:
            if c.client_reset:
                net.fault('conn_reset_on_send')
                raise ConnectionResetError(errno.ECONNRESET, 'Connection reset by peer')
            if c.server_wr_shut:
                raise BrokenPipeError(errno.EPIPE, 'Broken pipe')
            if c.client_closed:
                # the peer is gone: the kernel accepts and discards (a later send may get RST;
                # both are legal TCP behaviours, the per-run coin decides which)
                if net.cfg.get('rst_after_close'):
                    net.fault('send_after_peer_close_rst')
                    raise BrokenPipeError(errno.EPIPE, 'Broken pipe')
                net.fault('send_after_peer_close_discarded')
                net.k.record('s.send=', c.cid, len(data) - sent, 'discarded')
                return len(data)
            room = None if c.s2c_cap is None else c.s2c_cap - len(c.s2c)
            if room is not None and room <= 0:
                net.probe('send_blocked')
                ok = t.block(lambda: c.client_reset or c.client_closed or
                             (c.s2c_cap - len(c.s2c)) > 0, self._deadline(), 'send')
                if not ok:
                    net.k.record('s.timeout', c.cid, 'send')
                    net.fault('send_timeout')
                    raise _real_socket.timeout('timed out')
                continue
            n = len(data) - sent
            if room is not None:
                n = min(n, room)
            if n > 1:
                v = net.decide('short_send', n)
                if v:
                    n = v
                    net.fault('short_send')
            c.s2c += data[sent:sent + n]
            sent += n
            net.k.record('s.send=', c.cid, n)
            c.events.append((net.k.now, 'send', n))
            c._after_server_write()
            if not all_ or sent >= len(data):
                return sent
            if sent < len(data):
                # a real sendall() loops in C; other threads may run between the partial sends
                t.preempt() if net.cfg.get('yield_in_sendall') else None


class SimListener:
    def __init__(self, net, family=None, type_=None):
        self.net = net
        self.queue = []
        self.addr = None
        self.closed = False
        net.listeners.append(self)

    def setsockopt(self, *a):
        pass

    def bind(self, addr):
        self.addr = addr

    def getsockname(self):
        return self.addr

    def listen(self, n=0):
        pass

    def fileno(self):
        return 999

    def close(self):
        self.closed = True

    def accept(self):
        if not self.queue:
            raise BlockingIOError(errno.EAGAIN, 'no pending connection')
        conn = self.queue.pop(0)
        s = SimSocket(conn)
        self.net.k.record('s.accept', conn.cid)
        return s, ('sim-client', conn.cid)


class _Proxy:
    """A module look-alike: everything comes from the real module except the overrides."""

    def __init__(self, real, **over):
        self.__dict__['_real'] = real
        self.__dict__['_over'] = over

    def __getattr__(self, name):
        o = self.__dict__['_over']
        if name in o:
            return o[name]
        return getattr(self.__dict__['_real'], name)


class SimNet:
    def __init__(self, kernel, cfg=None, fault_rng=None):
        self.k = kernel
        self.cfg = cfg or {}
        self.fault_rng = fault_rng
        self.conns = []
        self.listeners = []
        self.faults = {}
        self.probes = {}
        self.buggify_sites = self.cfg.get('buggify', {})   # site -> probability
        self.raw_recv_hook = None
        self.plan = None
        self.plan_pos = 0
        self.recorded_plan = []

    def fault(self, name, n=1):
        self.faults[name] = self.faults.get(name, 0) + n

    def probe(self, name, n=1):
        self.probes[name] = self.probes.get(name, 0) + n

    def decide(self, site, n):
        """Cooperative fault point: 0 = no fault, else a value in [1, n).  Decisions are recorded
        as data; a replay consumes the recorded plan instead of the PRNG."""
        if self.plan is not None:
            if self.plan_pos < len(self.plan):
                v = self.plan[self.plan_pos][1]
                self.plan_pos += 1
                v = max(0, min(v, n - 1))
            else:
                v = 0
        else:
            p = self.buggify_sites.get(site, 0)
            v = self.fault_rng.randrange(1, n) if (p and self.fault_rng.random() < p) else 0
        self.recorded_plan.append([site, v])
        return v

    def on_raw_recv(self, conn, n, data):
        if self.raw_recv_hook:
            self.raw_recv_hook(conn, n, data)

    def new_conn(self):
        c = SimConn(self, len(self.conns))
        self.conns.append(c)
        return c

    def connect(self, conn, listener=None):
        lst = listener or self.listeners[0]
        conn.connect_at = self.k.now
        lst.queue.append(conn)
        self.k.record('c.connect', conn.cid)

    # ---- module stand-ins for socketserver ----
    def socket_module(self):
        net = self

        def socket(family=None, type_=None, *a, **kw):
            return SimListener(net, family, type_)
        return _Proxy(_real_socket, socket=socket)

    def threading_module(self):
        k = self.k

        class Thread(K.SimThread):
            def __init__(self, group=None, target=None, name=None, args=(), kwargs=None, daemon=None):
                K.SimThread.__init__(self, k, target, args, kwargs, label='server')
                for a in args:
                    if isinstance(a, SimSocket):
                        a._conn.thread = self
                        self.conn = a._conn
        return _Proxy(_real_threading, Thread=Thread)
