"""In-memory report files with a fault plan (C04): open / k-th write / close errors, and
file-like objects whose write raises."""
import errno as _errno


class SimFile:
    def __init__(self, fs, path, plan):
        self.fs = fs
        self.path = path
        self.plan = plan or {}
        self.data = []
        self.closed = False
        self.writes = 0

    def write(self, s):
        if self.closed:
            raise ValueError('I/O operation on closed file.')
        k = self.writes
        self.writes += 1
        w = self.plan.get('write')
        if w is not None and w[0] == k:
            self.fs.fired.append('write')
            if w[2] == 'short':
                # a short write that then fails: part of the text reaches the file
                self.data.append(s[:max(0, len(s) // 2)])
            raise OSError(w[1], 'simulated write error')
        self.data.append(s)
        return len(s)

    def flush(self):
        pass

    def close(self):
        if self.closed:
            return
        self.closed = True
        c = self.plan.get('close')
        if c is not None:
            self.fs.fired.append('close')
            raise OSError(c, 'simulated close error')

    def __enter__(self):
        return self

    def __exit__(self, et, ev, tb):
        self.close()
        return False

    def content(self):
        return ''.join(self.data)


class SimFS:
    def __init__(self):
        self.files = {}
        self.plan = None
        self.fired = []
        self.opens = 0

    def reset(self):
        self.files = {}
        self.plan = None
        self.fired = []
        self.opens = 0

    def open(self, path, mode='r', *a, **kw):
        self.opens += 1
        plan = self.plan or {}
        o = plan.get('open')
        if o is not None:
            self.fired.append('open')
            raise OSError(o, 'simulated open error', path)
        if 'w' not in mode:
            raise OSError(_errno.ENOENT, 'No such file', path)
        f = SimFile(self, path, plan)
        self.files[path] = f
        return f

    def file_object(self):
        f = SimFile(self, '<object>', self.plan or {})
        self.files['<object>'] = f
        return f
