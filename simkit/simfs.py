"""In-memory report files with a fault plan (C04): open / k-th write / close errors, and
file-like objects whose write raises."""
import errno as _errno


class SimFile:
    def __init__(self, fs, path, plan):
        self.fs = fs
        self.path = path
        self.plan = plan or {}
        self.data = []
        self.closed = False
        self.writes = 0

    def write(self, s):
        if self.closed:
            raise ValueError('I/O operation on closed file.')
        k = self.writes
        self.writes += 1
        w = self.plan.get('write')
        if w is not None and w[0] == k:
            self.fs.fired.append('write')
            if w[2] == 'short':
                # a short write that then fails: part of the text reaches the file
                self.data.append(s[:max(0, len(s) // 2)])
            raise OSError(w[1], 'simulated write error')
        self.data.append(s)
        return len(s)

    def writelines(self, lines):
        for s in lines:
            self.write(s)

    def flush(self):
        pass

    def close(self):
        if self.closed:
            return
        self.closed = True
        c = self.plan.get('close')
        if c is not None:
            self.fs.fired.append('close')
            raise OSError(c, 'simulated close error')

    def __enter__(self):
        return self

    def __exit__(self, et, ev, tb):
        self.close()
        return False

    def content(self):
        return ''.join(self.data)


class SimFS:
    def __init__(self):
        self.files = {}
        self.plan = None
        self.fired = []
        self.opens = 0

    def reset(self):
        self.files = {}
        self.plan = None
        self.fired = []
        self.opens = 0

    def open(self, path, mode='r', *a, **kw):
        self.opens += 1
        plan = self.plan or {}
        o = plan.get('open')
        if o is not None:
            self.fired.append('open')
            raise OSError(o, 'simulated open error', path)
        if 'w' not in mode and 'a' not in mode and '+' not in mode:
            raise OSError(_errno.ENOENT, 'No such file', path)
        f = SimFile(self, path, plan)
        old = self.files.get(path)
        if old is not None and 'w' not in mode:
            f.data = [old.content()]         # append / update: what the path held stays
        self.files[path] = f
        return f

    def preload(self, path, text):
        """the path already exists with this content (left by an earlier run)"""
        f = SimFile(self, path, {})
        f.data = [text]
        f.closed = True
        self.files[path] = f

    def file_object(self):
        f = SimFile(self, '<object>', self.plan or {})
        self.files['<object>'] = f
        return f
