"""Make CPython's per-module import lock baton-aware (cold-import runs of the thread world): a
simulated thread that would block on a module lock owned by another (parked) simulated thread
parks through the kernel instead of blocking for real, so the scheduler stays in control and the
run stays deterministic."""
import _thread
import importlib._bootstrap as _b

from . import kernel as K

_orig = None


def install():
    global _orig
    if _orig is not None:
        return
    _orig = _b._ModuleLock.acquire

    def acquire(self):
        t = K.current_thread()
        if t is not None and t.ident == _thread.get_ident():
            tid = _thread.get_ident()
            if self.count and self.owner != tid:
                if K._K is not None:
                    K._K.import_waits += 1
                t.block(lambda: not self.count, None, 'import-lock')
        return _orig(self)
    _b._ModuleLock.acquire = acquire

    # module-level code objects are created at import time: instrument them as they are loaded
    import importlib._bootstrap_external as _be
    orig_get_code = _be.SourceFileLoader.get_code

    def get_code(self, fullname):
        code = orig_get_code(self, fullname)
        # only the version package's own __init__ (hl7apy.v2_x): its body is where the module sits half
        # initialised in sys.modules; the table sub-modules are single multi-megabyte literals whose
        # instrumentation alone would cost seconds
        if code is not None and fullname.startswith('hl7apy.v2_') and fullname.count('.') == 1:
            codes = set()
            K._walk_code(code, codes)
            K.instrument(codes)
            K.mark_strong(codes)
            K.mark_touch(codes)
        return code
    _be.SourceFileLoader.get_code = get_code
