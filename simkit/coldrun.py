"""Run one simulated run in a freshly forked child of a process that has imported and
instrumented the library but has never *called* it: every lazily populated cache, memo or
"first call" path of the library is cold at the start of the run (DESIGN §5)."""
import os
import pickle
import select
import signal
import time
import traceback

from .kernel import HarnessError


def run_in_fork(fn, arg, timeout=600.0):
    r, w = os.pipe()
    pid = os.fork()
    if pid == 0:
        code = 0
        try:
            os.close(r)
            try:
                data = pickle.dumps(('ok', fn(arg)))
            except BaseException:      # noqa
                data = pickle.dumps(('err', traceback.format_exc()))
            with os.fdopen(w, 'wb') as f:
                f.write(data)
        except BaseException:          # noqa
            code = 3
        finally:
            os._exit(code)
    os.close(w)
    chunks = []
    deadline = time.time() + timeout
    try:
        while True:
            left = deadline - time.time()
            if left <= 0:
                os.kill(pid, signal.SIGKILL)
                os.waitpid(pid, 0)
                raise HarnessError('forked run did not finish within %ss' % timeout)
            ready, _, _ = select.select([r], [], [], min(left, 5.0))
            if ready:
                b = os.read(r, 1 << 16)
                if not b:
                    break
                chunks.append(b)
    finally:
        os.close(r)
    _, status = os.waitpid(pid, 0)
    if not chunks:
        raise HarnessError('forked run died without a result (status %r)' % (status,))
    kind, val = pickle.loads(b''.join(chunks))
    if kind == 'err':
        raise HarnessError('exception inside the forked run:\n' + val)
    return val
