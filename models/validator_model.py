"""Which structural defects a model tree has, read off the structure tables only (C04, first
sentence of the statement): required child missing, maximum cardinality exceeded, child the parent
does not allow, datatype overridden by a differently structured one.  Independent of
hl7apy/validation.py; positions and names only."""
from . import tables as T


def _ref_children(ref):
    return T.children(ref) if ref is not None and len(ref) > 1 and ref[1] else []


def predict(root, version):
    """-> [(kind, element name the error must mention, where)] for a 'msg' or 'seg' model root."""
    out = []
    if root.kind == 'msg':
        ref = T.messages(version).get(root.key)
        if ref is None and str(root.key).upper().startswith('Z'):
            # a Z message has no structure of its own, but the segments it holds have theirs
            for kid in root.kids:
                if kid.kind == 'seg' and not str(kid.key).upper().startswith('Z'):
                    _segment(kid, version, out)
            return out
        if ref is None:
            return None              # unknown structure: nothing to predict against
        _group(root, ref, root.key, version, out)
    elif root.kind == 'seg':
        _segment(root, version, out)
    else:
        return None
    return out


def _group(node, ref, name, version, out):
    entries = _ref_children(ref)
    known = {}
    for k, cref, mn, mx, cls, orig in entries:
        known.setdefault(orig, []).append((k, cref, mn, mx, cls))
    counts = {}
    for kid in node.kids:
        counts[kid.key] = counts.get(kid.key, 0) + 1
    for orig, ents in known.items():
        # a name listed twice in one structure (ROL in ADT_A01): the library indexes all repetitions
        # under the first entry; only judge names that occur once
        if len(ents) != 1:
            continue
        k, cref, mn, mx, cls = ents[0]
        n = counts.get(orig, 0)
        if n < mn:
            out.append(('missing', orig, name))
        elif mx != -1 and n > mx:
            out.append(('exceeded', orig, name))
    for kid in node.kids:
        if kid.key not in known:
            if kid.kind == 'seg' and str(kid.key).upper().startswith('Z') and len(kid.key) == 3:
                continue
            out.append(('not_allowed', kid.key, name))
            continue
        ents = known[kid.key]
        if kid.kind == 'seg':
            _segment(kid, version, out)
        elif len(ents) == 1:
            _group(kid, ents[0][1], kid.key, version, out)


def _segment(node, version, out):
    name = node.key
    fl = T.seg_fields(version, name)
    if not fl:
        return
    last_varies = fl[-1][1] is not None and fl[-1][1][2] == 'varies'
    counts = {}
    for f in node.kids:
        counts[f.key] = counts.get(f.key, 0) + 1
    for i, (fname, fref, (mn, mx), cls) in enumerate(fl):
        idx = i + 1
        if name == 'MSH' and idx in (1, 2):
            continue
        n = counts.get(idx, 0)
        if n < mn:
            out.append(('missing', fname, name))
        elif mx != -1 and n > mx:
            out.append(('exceeded', fname, name))
    for idx in counts:
        if idx > len(fl) and not last_varies:
            out.append(('not_allowed', '%s_%d' % (name, idx), name))
    for f in node.kids:
        if f.key <= len(fl) and not (name == 'MSH' and f.key in (1, 2)):
            fref = fl[f.key - 1][1]
            if fref is not None and T.is_base(version, fref[2]) and (len(f.kids) > 1 or any(len(c.kids) > 1 for c in f.kids)):
                # a field of a base datatype holding several components / subcomponents
                out.append(('datatype', '%s_%d' % (name, f.key), name))
            _field(f, fref, '%s_%d' % (name, f.key), version, out)
    for f in node.kids:
        tag = getattr(f, 'tag', None)
        if tag and tag.get('datatype') and f.key <= len(fl):
            fref = fl[f.key - 1][1]
            dt = tag['datatype']
            if fref is not None and dt != fref[2] and not T.is_base(version, dt) and not T.is_base(version, fref[2]) and f.kids:
                out.append(('not_allowed', '%s_%d' % (dt, f.kids[0].key), fname_of(name, f.key)))


def holds_degraded_field(root, version):
    """Does the model hold a field (or component) of a base datatype with more than one child?"""
    def seg(node):
        fl = T.seg_fields(version, node.key)
        for f in node.kids:
            if not fl or f.key > len(fl) or (node.key == 'MSH' and f.key in (1, 2)):
                continue
            fref = fl[f.key - 1][1]
            if fref is None:
                continue
            if T.is_base(version, fref[2]):
                if len(f.kids) > 1 or any(len(c.kids) > 1 for c in f.kids):
                    return True
            elif fref[0] == 'sequence' and fref[1]:
                for c in f.kids:
                    if 1 <= c.key <= len(fref[1]) and len(c.kids) > 1:
                        cref = fref[1][c.key - 1][1]
                        if cref is not None and T.is_base(version, cref[2]):
                            return True
        return False

    def walk(node):
        if node.kind == 'seg':
            return seg(node)
        return any(walk(k) for k in node.kids if k.kind in ('seg', 'grp'))
    return walk(root) if root is not None and root.kind in ('msg', 'grp', 'seg') else False


def fname_of(seg, idx):
    return '%s_%d' % (seg, idx)


def named(defect, errors):
    """Is there an error that names the element of this predicted defect?"""
    kind, elem, where = defect
    for e in errors:
        if elem in e:
            if kind == 'missing' and 'Missing required child' in e:
                return True
            if kind == 'exceeded' and 'Child limit exceeded' in e:
                return True
            if kind == 'not_allowed' and ('Invalid children' in e or 'Unknown element' in e or 'Invalid element' in e):
                return True
            if kind == 'datatype' and ('Datatype' in e or 'Invalid children' in e or 'Child limit' in e):
                return True
    return False


def _field(node, ref, name, version, out, depth=0):
    """required / surplus components (and, one level down, subcomponents) of a complex datatype"""
    tag = getattr(node, 'tag', None)
    if tag and tag.get('datatype'):
        return
    if ref is None or ref[0] != 'sequence' or not ref[1] or T.is_base(version, ref[2]):
        return
    counts = {}
    for c in node.kids:
        counts[c.key] = counts.get(c.key, 0) + 1
    for i, ent in enumerate(ref[1]):
        cname, cref, (mn, mx) = ent[0], ent[1], ent[2]
        n = counts.get(i + 1, 0)
        if n < mn:
            out.append(('missing', cname, name))
        elif mx != -1 and n > mx:
            out.append(('exceeded', cname, name))
    if depth == 0:
        for c in node.kids:
            if 1 <= c.key <= len(ref[1]):
                _field(c, ref[1][c.key - 1][1], ref[1][c.key - 1][0], version, out, 1)
