"""Read-only access to hl7apy's per-version structure tables, independent of hl7apy.core.

A reference is (content_type, children, datatype, long_name, table, max_length) for fields and
components, (content_type, children) for segments/groups/messages; a child entry is
(name, ref, (min, max), cls_key) with cls_key in SEG/GRP/FIE/CMP.
"""
import importlib

VERSIONS = ['2.1', '2.2', '2.3', '2.3.1', '2.4', '2.5', '2.5.1', '2.6', '2.7', '2.8', '2.8.1', '2.8.2']
_cache = {}


def lib(version):
    m = _cache.get(version)
    if m is None:
        m = importlib.import_module('hl7apy.v' + version.replace('.', '_'))
        _cache[version] = m
    return m


def base_datatypes(version):
    return set(lib(version).BASE_DATATYPES)


def is_base(version, dt):
    return dt in lib(version).BASE_DATATYPES


def messages(version):
    return lib(version).MESSAGES


def message_ref(version, name):
    """The structure of a message; for a Z message (which the library accepts and gives the empty
    structure: any segment may be added) a synthetic one the *generators* draw segments from.  The
    monitors keep using messages(): a Z message has no structure to be judged against."""
    ref = lib(version).MESSAGES.get(name)
    if ref is None and name and name.upper().startswith('Z'):
        segs = lib(version).SEGMENTS
        ents = [('MSH', segs['MSH'], (1, 1), 'SEG')]
        for sname in ('EVN', 'PID', 'PV1', 'NK1', 'OBX', 'NTE', 'AL1'):
            if sname in segs:
                ents.append((sname, segs[sname], (0, -1), 'SEG'))
        return ('sequence', tuple(ents))
    return ref


def segments(version):
    return lib(version).SEGMENTS


def groups(version):
    return lib(version).GROUPS


def datatype_struct(version, dt):
    return lib(version).DATATYPES_STRUCTS.get(dt)


def children(ref):
    """[(name, ref, min, max, cls_key)] with the library's renaming of duplicate names
    (second ROL in ADT_A01 becomes ROL_1? no: '<name>_<count>')."""
    out = []
    seen = {}
    if ref[0] not in ('sequence', 'choice') or ref[1] is None:
        return out
    for c in ref[1]:
        name, cref, card, cls = c[0], c[1], c[2], c[3]
        if name in seen:
            k = '%s_%d' % (name, seen[name])
        else:
            k = name
        seen[name] = seen.get(name, 0) + 1
        out.append((k, cref, card[0], card[1], cls, name))
    return out


def field_datatype(ref):
    return ref[2] if len(ref) > 2 else None


def has_duplicate_children(ref):
    names = [c[0] for c in (ref[1] or ())]
    return len(names) != len(set(names))


def seg_fields(version, name):
    """Well-formed field entries of a segment: [(name, ref, (min, max), 'FIE')]; [] for the few
    segments whose table entry is empty or malformed (2.7+ QRD/QRF/URD/URS, 2.1 ORO)."""
    sref = segments(version).get(name)
    if not sref or len(sref) < 2 or not isinstance(sref[1], (tuple, list)):
        return []
    out = []
    for i, c in enumerate(sref[1]):
        if not isinstance(c, (tuple, list)) or len(c) != 4:
            return []
        # a few 2.6 / 2.8 / 2.8.1 tables skip field numbers (EVN starts at EVN_2, DG1 jumps from 6 to
        # 15 ...): the library then encodes by table order, not by number.  Out of the generators' regime.
        if c[0] != '%s_%d' % (name, i + 1):
            return []
        out.append(c)
    return out
