"""Seeded, table-driven generators: leaf literals per base datatype (valid / invalid under
STRICT), ER7 text of segments and messages that stay inside their structure.

Values never contain delimiter or escape characters (DESIGN §7.2), and every generated leaf is a
fresh token so that each value in an encoding is attributable to one write.
"""
from . import tables as T

STD_EC = {'FIELD': '|', 'COMPONENT': '^', 'SUBCOMPONENT': '&', 'REPETITION': '~', 'ESCAPE': '\\',
          'SEGMENT': '\r', 'GROUP': '\r'}
ALT_ECS = [
    {'FIELD': '#', 'COMPONENT': '$', 'SUBCOMPONENT': '@', 'REPETITION': '!', 'ESCAPE': '*', 'SEGMENT': '\r', 'GROUP': '\r'},
    {'FIELD': ';', 'COMPONENT': ':', 'SUBCOMPONENT': '%', 'REPETITION': '{', 'ESCAPE': '?', 'SEGMENT': '\r', 'GROUP': '\r'},
    {'FIELD': '!', 'COMPONENT': '/', 'SUBCOMPONENT': '=', 'REPETITION': '<', 'ESCAPE': '>', 'SEGMENT': '\r', 'GROUP': '\r'},
]

TEXTUAL = {'ST', 'TX', 'FT', 'GTS', 'ID', 'IS', 'WD', 'CM', 'SNM'}
MAXLEN = {'ST': 199, 'TX': 65536, 'FT': 65536, 'GTS': 199, 'ID': None, 'IS': 20, 'WD': 199, 'TN': 199,
          'NM': 16, 'SI': 4, 'SNM': 199, 'CM': 199}


class Tokens:
    """Source of fresh, attributable leaf values."""

    def __init__(self, start=0, prefix='v'):
        self.n = start
        self.prefix = prefix

    def next(self):
        self.n += 1
        return self.n


def valid_literal(dt, tok, rng):
    n = tok.next()
    if dt in ('NM',):
        return rng.choice(['%d', '%d.5', '-%d', '%d.25'])[:] % n
    if dt == 'SI':
        return str(n % 9999 + 1)
    if dt == 'DT':
        y = 1900 + n % 200
        return rng.choice(['%04d' % y, '%04d%02d' % (y, n % 12 + 1), '%04d%02d%02d' % (y, n % 12 + 1, n % 28 + 1)])
    if dt == 'TM':
        h, m, s = n % 24, n % 60, (n * 7) % 60
        return rng.choice(['%02d' % h, '%02d%02d' % (h, m), '%02d%02d%02d' % (h, m, s),
                           '%02d%02d%02d.%04d' % (h, m, s, n % 10000), '%02d%02d+0100' % (h, m)])
    if dt == 'DTM':
        y, mo, d, h, m, s = 1900 + n % 200, n % 12 + 1, n % 28 + 1, n % 24, n % 60, (n * 7) % 60
        return rng.choice(['%04d' % y, '%04d%02d%02d' % (y, mo, d), '%04d%02d%02d%02d%02d' % (y, mo, d, h, m),
                           '%04d%02d%02d%02d%02d%02d' % (y, mo, d, h, m, s),
                           '%04d%02d%02d%02d%02d%02d.%04d-0500' % (y, mo, d, h, m, s, n % 10000)])
    if dt == 'TN':
        return '(%03d)555-%04d' % (n % 1000, n % 10000)
    if dt == 'IS':
        return '%s%d' % (tok.prefix, n)
    return '%s%d' % (tok.prefix, n)


def invalid_literal(dt, tok, rng):
    """A literal that STRICT must refuse for this datatype, or None if every short string is fine."""
    n = tok.next()
    if dt in ('NM', 'SI', 'DT', 'TM', 'DTM', 'TN') and rng.random() < 0.25:
        return '%s%d' % ('w' * 205, n)      # invalid for the datatype *and* longer than an ST may be
    if dt == 'NM':
        if rng.random() < 0.3:
            return '-%016d' % n          # valid number, 17 characters with the sign (max 16)
        return rng.choice(['x%d', '%d..5', 'n%dm']) % n
    if dt == 'SI':
        if rng.random() < 0.3:
            return '-%04d' % (n % 10000)          # valid integer, 5 characters with the sign (max 4)
        return rng.choice(['s%d', '%d.5', '1%04d']) % n          # the last one: too long (max 4)
    if dt == 'DT':
        return rng.choice(['%05d' % (n % 100000), '2024%02d%02d' % (13 + n % 80, 1), 'd%d' % n, '202401%02d' % (32 + n % 60)])
    if dt == 'TM':
        return rng.choice(['%02d' % (25 + n % 70), '12%02d' % (61 + n % 30), 't%d' % n, '123'])
    if dt == 'DTM':
        return rng.choice(['%05d' % (n % 100000), '2024%02d' % (13 + n % 80), 'q%d' % n, '20240101%02d' % (25 + n % 70)])
    if dt == 'TN':
        return 'tn%d' % n
    if dt == 'IS':
        return '%s%d' % ('i' * 21, n)
    if dt in ('ST', 'GTS', 'WD', 'SNM', 'CM'):
        return '%s%d' % ('L' * 200, n)
    return None       # ID, TX, FT: nothing short is invalid


def leaf(dt, tok, rng, invalid_p=0.0):
    if invalid_p and rng.random() < invalid_p:
        v = invalid_literal(dt, tok, rng)
        if v is not None:
            return v, False
    return valid_literal(dt, tok, rng), True


def first_leaf_dt(version, ref):
    """Datatype of the first leaf below a (possibly complex) reference."""
    for _ in range(6):
        if ref is None:
            return 'ST'
        dt = ref[2] if len(ref) > 2 else None
        if dt is None or dt == 'varies':
            return 'ST'
        if T.is_base(version, dt):
            return dt
        if ref[0] == 'sequence' and ref[1]:
            ref = ref[1][0][1]
        else:
            st = T.datatype_struct(version, dt)
            if not st:
                return 'ST'
            ref = st[0][1]
    return 'ST'


def component_text(rng, version, cref, ec, tok, fill=0.5, invalid_p=0.0, depth=0, stats=None):
    """Text of one component (may contain subcomponents)."""
    dt = cref[2]
    if dt is None or dt == 'varies':
        return valid_literal('ST', tok, rng)
    if T.is_base(version, dt):
        v, ok = leaf(dt, tok, rng, invalid_p)
        if stats is not None and not ok:
            stats['invalid'] = stats.get('invalid', 0) + 1
        return v
    if cref[0] != 'sequence' or not cref[1]:
        return valid_literal('ST', tok, rng)
    parts = []
    first = True
    for sub in cref[1]:
        if sub[1] is None or sub[2][1] == 0 or sub[1][2] == 'WD':
            parts.append('')
            first = False
            continue
        sdt = sub[1][2]
        want = first or sub[2][0] >= 1 or rng.random() < fill
        first = False
        if want and (T.is_base(version, sdt)):
            v, ok = leaf(sdt, tok, rng, invalid_p)
            if stats is not None and not ok:
                stats['invalid'] = stats.get('invalid', 0) + 1
            parts.append(v)
        elif want:
            parts.append(valid_literal(first_leaf_dt(version, sub[1]), tok, rng))
        else:
            parts.append('')
    while parts and parts[-1] == '':
        parts.pop()
    return ec['SUBCOMPONENT'].join(parts)


def field_text(rng, version, fref, ec, tok, fill=0.5, invalid_p=0.0, stats=None, overflow_p=0.0):
    """Text of one field repetition.  overflow_p: probability of more components than the datatype
    defines (outside the element model's regime; used by the call corpus only)."""
    if overflow_p and rng.random() < overflow_p:
        base = field_text(rng, version, fref, ec, tok, 1.0, 0.0, stats)
        n_def = len(fref[1]) if fref[0] == 'sequence' and fref[1] else 1
        have = base.count(ec['COMPONENT']) + 1
        pad = ec['COMPONENT'] * max(0, n_def - have)
        return base + pad + ec['COMPONENT'] + valid_literal('ST', tok, rng) + ec['COMPONENT'] + valid_literal('ST', tok, rng)
    dt = fref[2]
    if dt is None or dt == 'varies':
        return valid_literal('ST', tok, rng)
    if T.is_base(version, dt):
        v, ok = leaf(dt, tok, rng, invalid_p)
        if stats is not None and not ok:
            stats['invalid'] = stats.get('invalid', 0) + 1
        return v
    if fref[0] != 'sequence' or not fref[1]:
        return valid_literal('ST', tok, rng)
    parts = []
    first = True
    for comp in fref[1]:
        want = (first or comp[2][0] >= 1 or rng.random() < fill) and comp[1] is not None and comp[2][1] != 0 and comp[1][2] != 'WD'
        first = False
        parts.append(component_text(rng, version, comp[1], ec, tok, fill * 0.7, invalid_p, 1, stats) if want else '')
    while parts and parts[-1] == '':
        parts.pop()
    return ec['COMPONENT'].join(parts)


def segment_text(rng, version, name, ec=STD_EC, tok=None, fill=0.35, invalid_p=0.0, required=True, reps=True,
                 stats=None, max_fields=None, overflow_p=0.0):
    """One in-structure segment line (not MSH).  Returns text without trailing separator."""
    tok = tok or Tokens()
    if name not in T.segments(version):      # Z segment: a few ST fields
        vals = [valid_literal('ST', tok, rng) if rng.random() < 0.6 else '' for _ in range(rng.randrange(1, 5))]
        while vals and vals[-1] == '':
            vals.pop()
        return ec['FIELD'].join([name] + vals)
    fields = []
    for fname, fref, (mn, mx), cls in T.seg_fields(version, name):
        if max_fields is not None and len(fields) >= max_fields:
            break
        if fref is None or mx == 0 or fref[2] == 'WD':
            fields.append('')           # withdrawn or not described by the tables: never generated
            continue
        want = (required and mn >= 1) or rng.random() < fill
        if not want:
            fields.append('')
            continue
        n = 1
        if reps and mx != 1 and rng.random() < 0.3:
            n = 2 if mx == -1 or mx >= 2 else 1
            if (mx == -1 or mx >= 3) and rng.random() < 0.3:
                n = 3
        fields.append(ec['REPETITION'].join(field_text(rng, version, fref, ec, tok, fill, invalid_p, stats, overflow_p)
                                            for _ in range(n)))
    while fields and fields[-1] == '':
        fields.pop()
    return ec['FIELD'].join([name] + fields)


def msh_text(version, structure, ec=STD_EC, ctrl='1', trunc=None):
    parts = structure.split('_')
    comp = ec['COMPONENT']
    ncomp = 3
    try:
        r9 = [c for c in T.segments(version)['MSH'][1] if c[0] == 'MSH_9'][0][1]
        ncomp = len(r9[1]) if r9[0] == 'sequence' else 1
    except Exception:
        pass
    if len(parts) >= 2:
        msh9 = comp.join([parts[0], parts[1], structure][:max(1, ncomp)])
    else:
        msh9 = structure
    encs = ec['COMPONENT'] + ec['REPETITION'] + ec['ESCAPE'] + ec['SUBCOMPONENT']
    if trunc and version >= '2.7':
        encs += trunc
    f = ec['FIELD']
    return f.join(['MSH', encs, 'SND', 'SFAC', 'RCV', 'RFAC', '20240102030405', '', msh9, ctrl, 'P', version])


def _walk_structure(rng, version, ref, ec, tok, out, opt_p, rep_p, invalid_p, depth, stats, seg_kwargs):
    for c in ref[1]:
        name, cref, (mn, mx), cls = c[0], c[1], c[2], c[3]
        if name == 'MSH':
            continue
        want = mn >= 1 or rng.random() < (opt_p if depth < 3 else opt_p / 3)
        if not want:
            continue
        n = 1
        if mx != 1 and rng.random() < rep_p:
            n = 2
        for _ in range(n):
            if cls == 'SEG':
                if T.seg_fields(version, name):
                    out.append(segment_text(rng, version, name, ec, tok, invalid_p=invalid_p, stats=stats, **seg_kwargs))
            else:
                _walk_structure(rng, version, cref, ec, tok, out, opt_p, rep_p, invalid_p, depth + 1, stats, seg_kwargs)


def message_text(rng, version, structure, ec=STD_EC, tok=None, ctrl='1', opt_p=0.25, rep_p=0.25, invalid_p=0.0,
                 stats=None, trailing_cr=False, fill=0.3):
    """ER7 text of an in-structure message: MSH + segments in structure order."""
    tok = tok or Tokens()
    ref = T.messages(version)[structure]
    out = [msh_text(version, structure, ec, ctrl)]
    _walk_structure(rng, version, ref, ec, tok, out, opt_p, rep_p, invalid_p, 0, stats, {'fill': fill})
    text = '\r'.join(out)
    if trailing_cr:
        text += '\r'
    return text


def pick_structure(rng, version, small=True):
    names = sorted(T.messages(version))
    if small:
        for _ in range(20):
            s = rng.choice(names)
            ref = T.messages(version)[s]
            if ref[1] and len(ref[1]) <= 14:
                return s
    return rng.choice(names)


def pick_segment(rng, version, exclude=('MSH',)):
    names = [n for n in sorted(T.segments(version)) if n not in exclude and T.seg_fields(version, n)]
    return rng.choice(names)
