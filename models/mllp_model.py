"""Reference model of the MLLP server's observable contract (property C16), written from the
property statement and the MLLP framing rules -- it shares no code with hl7apy/mllp.py and uses
no regular expressions.

Input: the server configuration and one client's script (bytes, timing, how the client ends).
Output: what the property says must be observable on that connection.
"""

SB, EB, CR = 0x0B, 0x1C, 0x0D
US = 1_000_000

SERVED = 'SERVED'        # exactly one handler, predicted class/args/exception, exact reply
DROPPED = 'DROPPED'      # no handler, no bytes, closed
EITHER = 'EITHER'        # timing inside the stall uncertainty window: safety checks only
UNSPEC = 'UNSPEC'        # the statement does not fix the outcome: safety checks only


def arrivals(client):
    """[(time_us, bytes)] for each chunk, absolute times."""
    t = client['connect_at']
    out = []
    for delay, hx in client['chunks']:
        t += delay
        out.append((t, bytes.fromhex(hx)))
    return out


def end_time(client):
    arr = arrivals(client)
    last = arr[-1][0] if arr else client['connect_at']
    return last + client.get('end_delay', 0)


def frame_end_index(data):
    """Index of the last byte of the first complete frame (SB ... EB CR) or None."""
    for j in range(2, len(data)):
        if data[j - 1] == EB and data[j] == CR:
            return j
    return None


def wellformed_content(text):
    """One or more non-empty CR-separated lines, optionally CR-terminated."""
    if not text:
        return False
    parts = text.split('\r')
    if parts[-1] == '':
        parts = parts[:-1]
    if not parts:
        return False
    return all(p != '' for p in parts)


def route(text, handlers, has_err):
    """-> (kind, handler_key, exc_name, msh9) where kind in 'normal' | 'err' | 'unspec'."""
    if len(text) < 4 or text[:3] != 'MSH' or text[3].isspace():
        return ('err', 'ERR', 'InvalidHL7Message', None)
    sep = text[3]
    first = text.split('\r', 1)[0]
    fields = first.split(sep)
    seps = fields[1] if len(fields) > 1 else ''
    if len(set(seps)) != len(seps):
        return ('unspec', None, None, None)
    if len(seps) != 4:
        ok5 = len(seps) == 5 and len(fields) > 11 and fields[11] >= '2.7'
        if not ok5:
            return ('unspec', None, None, None)
    msh9 = fields[8].strip() if len(fields) > 8 else None
    if msh9 in handlers and msh9 != 'ERR':
        return ('normal', msh9, None, msh9)
    if msh9 == 'ERR':
        # a message whose MSH-9 is literally "ERR" would be dispatched to the error handler as
        # if it were a normal one; nothing in the statement covers it
        return ('unspec', None, None, msh9)
    return ('err', 'ERR', 'UnsupportedMessageType', msh9)


def classify(client, cfg, stall_us=0):
    """What must happen on this connection.  stall_us = total time the scheduler held this
    connection's handler thread although it was runnable (0 in fault-free timing)."""
    T = int(cfg['timeout_s'] * US)
    arr = arrivals(client)
    data = b''.join(b for _, b in arr)
    end = client.get('end', 'none')
    t_end = end_time(client)
    res = {'cls': None, 'why': '', 'payload': None, 'handler': None, 'exc': None, 'msh9': None,
           'reads_reply': False, 't_complete': None}

    def verdict(cls, why):
        res['cls'] = cls
        res['why'] = why
        return res

    if not data:
        return verdict(DROPPED, 'no bytes sent')
    if data[0] != SB:
        # decided as soon as the first bytes arrive -- or the first recv times out; either way
        return verdict(DROPPED, 'first byte is not SB')
    need = frame_end_index(data)
    # which chunk delivers byte `need`
    gaps_uncertain = False
    prev = client['connect_at']
    off = 0
    complete_at = None
    for t, b in arr:
        gap = t - prev
        if end in ('half', 'close', 'reset') and t > t_end:
            break                       # the client already ended; nothing more is delivered
        if gap > T + stall_us:
            return verdict(DROPPED, 'gap > timeout')
        if gap >= T:
            gaps_uncertain = True
        prev = t
        off += len(b)
        if need is not None and off > need:
            complete_at = t
            break
    if complete_at is None:
        return verdict(DROPPED, 'frame never completes (EOF, reset or timeout first)')
    if end == 'reset' and t_end <= complete_at + stall_us:
        gaps_uncertain = True
    res['t_complete'] = complete_at
    frame = data[:need + 1]
    try:
        text = frame[1:-2].decode('utf-8')
    except UnicodeDecodeError:
        if gaps_uncertain:
            return verdict(EITHER, 'undecodable, timing uncertain')
        return verdict(DROPPED, 'undecodable bytes')
    if not wellformed_content(text):
        return verdict(UNSPEC, 'frame content is empty or has empty lines')
    kind, key, exc, msh9 = route(text, cfg['handlers'], cfg['with_err'])
    res['payload'] = text
    res['msh9'] = msh9
    if kind == 'unspec':
        return verdict(UNSPEC, 'routing of this MSH is not fixed by the statement')
    if kind == 'err' and not cfg['with_err']:
        return verdict(UNSPEC, 'no ERR handler registered')
    res['handler'] = key
    res['exc'] = exc
    # does the client read the reply?
    res['reads_reply'] = (end in ('none', 'half')) and client.get('reader', 'auto') != 'none'
    if end == 'reset' and not gaps_uncertain:
        res['reads_reply'] = False
    if gaps_uncertain:
        return verdict(EITHER, 'a gap lies inside [T, T+stall]')
    return verdict(SERVED, 'complete well-formed frame')
