"""A seeded corpus of public-API calls, described as data, that are given version, validation
level and encoding characters explicitly (or derive them from the message text), and a single
executor that turns a call into a normalised, comparable outcome.

Used as the workload of the thread world (C19) and of the defaults world (C17).
"""
from . import gen, tables as T
from simkit.util import canon_exc, canon_text

STRICT, TOLERANT = 1, 2
ECS = [gen.STD_EC] + gen.ALT_ECS


def _ec(i):
    if i == 'const':
        # the library's public constant itself, passed explicitly by the caller (it must stay what it is
        # whatever set_default_encoding_chars() does)
        from hl7apy import consts
        return consts.DEFAULT_ENCODING_CHARS
    d = dict(ECS[i])
    return d


# lists of highlight ranges owned by "the application" and passed to many values (C19: the library may
# not mutate what callers share); deliberately unsorted
SHARED_HIGHLIGHTS = [[(12, 19), (0, 5)], [(20, 24), (8, 11), (0, 3), (13, 17)], [(6, 9), (0, 4), (11, 15)]]


def gen_call(rng, tok, cid='a', kinds=None, invalid_p=0.1, version=None):
    """One call descriptor (a JSON-able dict)."""
    kinds = kinds or ['parse_message', 'parse_message', 'parse_message', 'parse_segment', 'parse_segment',
                      'parse_field', 'factory', 'build', 'build', 'parse_component', 'field_override', 'field_dt',
                      'segment_build', 'component_switch', 'group_build', 'highlight_encode']
    kind = rng.choice(kinds)
    version = version or rng.choice(T.VERSIONS)
    level = rng.choice([STRICT, TOLERANT, TOLERANT])
    eci = rng.choice([0, 0, 0, 1, 2, 3])
    ec = ECS[eci]
    use_const = eci == 0 and rng.random() < 0.25
    inv = invalid_p if rng.random() < 0.4 else 0.0
    if kind == 'parse_message':
        s = gen.pick_structure(rng, version)
        text = gen.message_text(rng, version, s, ec, tok, ctrl='%s%d' % (cid, tok.next()), invalid_p=inv,
                                opt_p=rng.choice([0.1, 0.3]), trailing_cr=rng.random() < 0.3)
        return {'kind': kind, 'text': text, 'level': level, 'find_groups': rng.random() < 0.7,
                'then': rng.sample(['er7', 'er7_trailing', 'validate', 'names', 'mllp'], rng.choice([1, 2, 3]))}
    if kind == 'parse_segment_surplus':
        # a segment whose last described field is of type varies (QPD, RDT) carrying more fields than the
        # structure describes: the parser builds the surplus ones itself (parse_field, force_varies branch)
        vs = [v for v in T.VERSIONS if 'RDT' in T.segments(v)]
        version = version if version in vs else rng.choice(vs)
        name = rng.choice([s for s in ('QPD', 'RDT') if s in T.segments(version)])
        text = gen.segment_text(rng, version, name, ec, tok, invalid_p=0.0, fill=1.0, reps=False)
        have = text.count(ec['FIELD'])
        want = len(T.seg_fields(version, name))
        text += ec['FIELD'] * (want - have) if have < want else ''
        if text.endswith(ec['FIELD']):
            text += gen.valid_literal('ST', tok, rng)
        for _ in range(rng.choice([1, 2, 3])):
            text += ec['FIELD'] + gen.valid_literal('ST', tok, rng)
        return {'kind': 'parse_segment', 'text': text, 'version': version, 'ec': 'const' if use_const else eci, 'level': level,
                'then': rng.sample(['er7', 'er7_trailing', 'validate', 'names'], rng.choice([1, 2]))}
    if kind == 'parse_segment':
        name = gen.pick_segment(rng, version)
        text = gen.segment_text(rng, version, name, ec, tok, invalid_p=inv, fill=rng.choice([0.2, 0.5]),
                                overflow_p=rng.choice([0, 0, 0.15]))
        return {'kind': kind, 'text': text, 'version': version, 'ec': 'const' if use_const else eci, 'level': level,
                'then': rng.sample(['er7', 'er7_trailing', 'validate', 'names'], rng.choice([1, 2]))}
    if kind == 'parse_field':
        name = gen.pick_segment(rng, version)
        flds = [c for c in T.seg_fields(version, name) if c[1] is not None and c[2][1] != 0]
        if not flds:
            return gen_call(rng, tok, cid, ['parse_segment'], invalid_p)
        f = rng.choice(flds)
        text = gen.field_text(rng, version, f[1], ec, tok, 0.5, inv, overflow_p=rng.choice([0, 0, 0.3]))
        return {'kind': kind, 'text': text, 'name': f[0], 'version': version, 'ec': eci, 'level': level,
                'then': ['er7', 'validate'][:rng.choice([1, 2])]}
    if kind == 'parse_component':
        dts = sorted(d for d in T.lib(version).DATATYPES if T.lib(version).DATATYPES[d][0] == 'sequence')
        if not dts:
            return gen_call(rng, tok, cid, ['parse_segment'], invalid_p)
        name = rng.choice(dts)
        text = gen.component_text(rng, version, T.lib(version).DATATYPES[name], ec, tok, 0.6, inv)
        return {'kind': kind, 'text': text, 'name': name, 'version': version, 'ec': eci, 'level': level,
                'then': ['er7']}
    if kind == 'factory':
        dt = rng.choice(sorted(T.base_datatypes(version)) + ['XX'])
        v, ok = gen.leaf(dt if dt != 'XX' else 'ST', tok, rng, 0.4)
        if rng.random() < 0.06:
            version = '2.9'          # not a supported version: the error path of the factory
        elif not ok and rng.random() < 0.5:
            # an invalid value that the TOLERANT fallback (ST of the call's version) encodes in a
            # version-specific way: the truncation character, a literal escape, 200+ characters
            v = rng.choice([v + '#1', v + '\\L\\x', v + 'w' * 210])
        return {'kind': kind, 'dt': dt, 'value': v, 'version': version, 'level': level}
    if kind == 'segment_build':
        name = gen.pick_segment(rng, version)
        flds = [c for c in T.seg_fields(version, name) if c[1] is not None and c[2][1] != 0 and c[1][2] != 'WD']
        if not flds:
            return gen_call(rng, tok, cid, ['parse_segment'], invalid_p)
        steps = []
        for _ in range(rng.choice([1, 2, 3])):
            f = rng.choice(flds)
            dt = gen.first_leaf_dt(version, f[1])
            v, ok = gen.leaf(dt, tok, rng, inv)
            st = [f[0] if rng.random() < 0.7 else (f[1][3] or f[0]), v]
            if T.is_base(version, f[1][2]) and rng.random() < 0.3:
                st.append(f[1][2])       # assigned as a base datatype object built with explicit arguments
            steps.append(st)
        return {'kind': kind, 'name': name, 'version': version, 'level': level, 'ec': eci, 'steps': steps,
                'then': ['er7', 'names']}
    if kind == 'highlight_encode':
        # a textual value with highlight ranges, given as one of the *caller's* lists that all actors
        # share (the library must treat its arguments as read-only), encoded inside a segment
        words = [gen.valid_literal('ST', tok, rng)[:9] for _ in range(4)]
        text = ' '.join(words)
        cands = []
        for seg, idx in (('PID', 23), ('NTE', 3), ('MSA', 3), ('PID', 2)):
            fl = T.seg_fields(version, seg)
            if len(fl) >= idx and fl[idx - 1][1] is not None and fl[idx - 1][1][2] in ('ST', 'FT', 'TX'):
                cands.append((seg, '%s_%d' % (seg, idx), fl[idx - 1][1][2]))
        if not cands:
            return gen_call(rng, tok, cid, ['factory'], invalid_p)
        seg, fname, dt = rng.choice(cands)
        return {'kind': kind, 'version': version, 'level': level, 'dt': dt, 'seg': seg, 'field': fname,
                'text': text, 'hl': rng.randrange(len(SHARED_HIGHLIGHTS)), 'times': rng.choice([1, 2])}
    if kind == 'group_build':
        # a Group built on its own (cheap: no MSH), filled with structure segments and Z segments
        gnames = sorted(T.groups(version))
        if not gnames:
            return gen_call(rng, tok, cid, ['factory'], invalid_p)
        g = rng.choice(gnames)
        gref = T.groups(version)[g]
        segs = [c[0] for c in (gref[1] or ()) if c[3] == 'SEG' and T.seg_fields(version, c[0])]
        steps = []
        for _ in range(rng.choice([1, 2, 3])):
            if rng.random() < 0.5 or not segs:
                z = 'Z' + cid.upper()[:1] + rng.choice('ABCDEFGH')
                steps.append(['add_segment', z] if rng.random() < 0.5 else ['seg_text', z, ec['FIELD'].join([z, gen.valid_literal('ST', tok, rng)])])
            else:
                sname = rng.choice(segs)
                steps.append(['add_segment', sname] if rng.random() < 0.5 else
                             ['seg_text', sname, gen.segment_text(rng, version, sname, ECS[0], tok, fill=0.15)])
        return {'kind': kind, 'name': g, 'version': version, 'level': TOLERANT, 'ec': 0, 'steps': steps}

    if kind == 'component_switch':
        # a named component of a complex datatype switched to another complex datatype after construction
        cands = sorted(n for n, r in T.lib(version).DATATYPES.items() if r is not None and r[0] == 'sequence')
        dts = [d for d in ('CX', 'XPN', 'CE', 'HD', 'EI', 'CWE', 'FN', 'TS', 'DR') if T.datatype_struct(version, d)]
        if not cands or not dts:
            return gen_call(rng, tok, cid, ['factory'], invalid_p)
        return {'kind': kind, 'name': rng.choice(cands), 'version': version, 'level': TOLERANT, 'd2': rng.choice(dts)}

    if kind == 'field_override':
        # a field built with another complex datatype than the tables give it (TOLERANT only), then a
        # second value after switching the datatype once more
        name = gen.pick_segment(rng, version)
        flds = [c for c in T.seg_fields(version, name) if c[1] is not None and c[2][1] != 0 and c[1][0] == 'sequence']
        dts = [d for d in ('CX', 'XPN', 'CE', 'HD', 'XAD', 'EI', 'PL', 'CWE', 'XCN', 'XTN') if T.datatype_struct(version, d)]
        if not flds or not dts:
            return gen_call(rng, tok, cid, ['factory'], invalid_p)
        f = rng.choice(flds)
        d1, d2 = rng.choice(dts), rng.choice(dts)

        def txt(dt):
            return gen.field_text(rng, version, ('sequence', T.datatype_struct(version, dt), dt, None, None, -1), ECS[0], tok, 0.5)
        return {'kind': kind, 'name': f[0], 'version': version, 'level': TOLERANT, 'ec': 0, 'd1': d1, 'v1': txt(d1),
                'd2': d2, 'via_ctor': rng.random() < 0.5}
    if kind == 'field_dt':
        # a field of a base datatype, valued, then given another base datatype, then valued again
        name = gen.pick_segment(rng, version)
        flds = [c for c in T.seg_fields(version, name) if c[1] is not None and c[2][1] != 0 and T.is_base(version, c[1][2])]
        if not flds:
            return gen_call(rng, tok, cid, ['factory'], invalid_p)
        f = rng.choice(flds)
        pool = sorted(T.base_datatypes(version))
        special = [d for d in ('TN', 'IS', 'DTM', 'GTS', 'SNM', 'TM', 'CM', 'WD') if d in pool]
        ndt = rng.choice(special) if special and rng.random() < 0.6 else rng.choice(pool)
        v1, _ = gen.leaf(f[1][2], tok, rng, 0.0)
        v2, _ = gen.leaf(ndt, tok, rng, 0.0)
        return {'kind': kind, 'name': f[0], 'version': version, 'level': level, 'ec': 0, 'v1': v1 if rng.random() < 0.7 else None,
                'dt': ndt, 'v2': v2}
    if kind == 'component_add_sub':
        alldts = sorted(set(T.lib(version).DATATYPES_STRUCTS) | T.base_datatypes(version) |
                        {'DTM', 'TN', 'IS', 'SNM', 'GTS', 'CM', 'TM'})
        dt = rng.choice(alldts) if rng.random() < 0.5 else rng.choice(['DTM', 'TN', 'IS', 'SNM', 'GTS', 'CM', 'TM', 'WD'])
        st = T.datatype_struct(version, dt)
        sub = (st[0][0] if st and rng.random() < 0.8 else '%s_1' % dt)
        return {'kind': kind, 'dt': dt, 'sub': sub, 'version': version, 'level': level}
    if kind == 'build_attach':
        # a segment made on its own, given one delimiter-free leaf value while it has no parent, then added to
        # a message with explicit delimiters and written through the message with delimiter-bearing text
        s = gen.pick_structure(rng, version)
        ref = T.messages(version)[s]
        cands = []
        for c in ref[1]:
            if c[3] == 'SEG' and c[0] != 'MSH':
                fl = [(i + 1, f) for i, f in enumerate(T.seg_fields(version, c[0])) if f[1] is not None and f[2][1] != 0 and f[1][2] != 'WD']
                base = [x for x in fl if T.is_base(version, x[1][1][2])]
                cplx = [x for x in fl if x[1][1][0] == 'sequence' and T.datatype_struct(version, x[1][1][2])]
                if base and cplx:
                    cands.append((c[0], base, cplx))
        if not cands:
            return gen_call(rng, tok, cid, ['build'], invalid_p)
        seg, base, cplx = rng.choice(cands)
        b, x = rng.choice(base), rng.choice(cplx)
        leaf, _ = gen.leaf(b[1][1][2], tok, rng, 0.0)
        step = ['attach_touched', seg, '%s_%d' % (seg.lower(), b[0]), leaf, '%s_%d' % (seg.lower(), x[0]),
                gen.field_text(rng, version, x[1][1], ec, tok, 0.8)]
        return {'kind': 'build', 'name': s, 'version': version, 'level': level, 'ec': eci, 'ctrl': '%s%d' % (cid, tok.next()),
                'steps': [step], 'then': ['er7', 'names']}
    # build: a message made through the object API
    s = gen.pick_structure(rng, version)
    steps = []
    ref = T.messages(version)[s]
    segs = [c[0] for c in ref[1] if c[3] == 'SEG' and c[0] != 'MSH' and T.seg_fields(version, c[0])]
    for _ in range(rng.choice([1, 2, 3, 4])):
        if not segs:
            break
        seg = rng.choice(segs)
        r = rng.random()
        flds = [c for c in T.seg_fields(version, seg) if c[1] is not None and c[2][1] != 0 and c[1][2] != 'WD']
        grps = [c for c in ref[1] if c[3] == 'GRP']
        if grps and r < 0.12:
            g = rng.choice(grps)
            gsegs = [c[0] for c in g[1][1] if c[3] == 'SEG' and T.seg_fields(version, c[0])] if g[1] and g[1][1] else []
            if gsegs:
                steps.append(['grp_text', g[0], gen.segment_text(rng, version, gsegs[0], ec, tok, fill=0.2)])
                continue
        if r > 0.95:
            steps.append(['msg_value', gen.message_text(rng, version, s, ec, tok, ctrl='%sv%d' % (cid, tok.next()), opt_p=0.1, fill=0.15)])
            continue
        if grps and 0.12 <= r < 0.2:
            g = rng.choice(grps)
            gsegs = [c[0] for c in g[1][1] if c[3] == 'SEG' and T.seg_fields(version, c[0])] if g[1] and g[1][1] else []
            if gsegs:
                steps.append(['grp_value', g[0], gen.segment_text(rng, version, gsegs[0], ec, tok, fill=0.2)])
                continue
        if flds and r > 0.85:
            f = rng.choice(flds)
            # the source is a parent-less segment parsed with the standard delimiters
            steps.append(['copy_field', seg, f[0], gen.segment_text(rng, version, seg, ECS[0], tok, fill=0.6)])
            continue
        if r < 0.06:
            z = rng.choice(['ZAA', 'ZBB', 'ZCC', 'ZDD'])
            if rng.random() < 0.5:
                steps.append(['add_segment', z])
            else:
                steps.append(['seg_text', z, ec['FIELD'].join([z, gen.valid_literal('ST', tok, rng)])])
            continue
        cflds = [c for c in flds if c[1][0] == 'sequence' and c[1][1] and not T.is_base(version, c[1][2])]
        if cflds and 0.25 <= r < 0.36:
            f = rng.choice(cflds)
            comps = [(i + 1, c) for i, c in enumerate(f[1][1]) if c[1] is not None and c[2][1] != 0 and c[1][2] not in ('WD', None)]
            if comps:
                ci, ce = rng.choice(comps)
                steps.append(['comp', seg, f[0], ce[0], gen.component_text(rng, version, ce[1], ec, tok, 0.7)])
                continue
        if r < 0.25 or not flds:
            steps.append(['add_segment', seg])
        elif r < 0.5:
            steps.append(['seg_text', seg, gen.segment_text(rng, version, seg, ec, tok, invalid_p=inv, fill=0.2)])
        else:
            f = rng.choice(flds)
            steps.append(['field', seg, f[0], gen.field_text(rng, version, f[1], ec, tok, 0.4, inv)])
    return {'kind': 'build', 'name': s, 'version': version, 'level': level, 'ec': 'const' if use_const else eci, 'steps': steps,
            'ctrl': '%s%d' % (cid, tok.next()),
            'then': rng.sample(['er7', 'er7_trailing', 'validate', 'names', 'mllp'], rng.choice([1, 2, 3]))}


def _names(e, depth=0):
    out = [e.classname, e.name]
    if depth < 6:
        kids = []
        for c in e.children:
            kids.append(_names(c, depth + 1))
        out.append(kids)
    return out


def _validate(e):
    r = e.validate(return_errors=True)
    return [bool(r.is_valid), sorted(canon_text(str(x)) for x in r.errors),
            sorted(canon_text(str(x)) for x in r.warnings)]


def _observe(e, then, ec=None):
    """Explicit-argument observations only (see DESIGN §6)."""
    out = {}
    is_msg = e.classname == 'Message'
    for t in then:
        try:
            if t == 'er7':
                out[t] = e.to_er7() if is_msg else e.to_er7(encoding_chars=ec)
            elif t == 'er7_trailing':
                out[t] = e.to_er7(trailing_children=True) if is_msg else e.to_er7(encoding_chars=ec, trailing_children=True)
            elif t == 'validate':
                if is_msg:
                    out[t] = _validate(e)
            elif t == 'names':
                out[t] = _names(e)
            elif t == 'mllp' and is_msg:
                out[t] = e.to_mllp()
        except Exception as ex:       # noqa: an exception is an outcome like any other
            out[t] = 'EXC ' + canon_exc(ex)
    out['version'] = e.version
    out['level'] = e.validation_level
    return out


def run_call(c, hook=None):
    """Execute one call with the real library -> normalised outcome (JSON-able).
    `hook(stage)` is called between the stages of a multi-step call (defaults world uses it to
    flip process defaults while an element is alive)."""
    from hl7apy import parser as P
    from hl7apy.core import Message
    from hl7apy.factories import datatype_factory
    kind = c['kind']
    try:
        if kind == 'parse_message':
            m = P.parse_message(c['text'], validation_level=c['level'], find_groups=c['find_groups'])
            if hook:
                hook('alive', m)
            return {'ok': True, 'obs': _observe(m, c['then'])}
        if kind == 'parse_segment' and c.get('implicit'):
            # relies on the process defaults (set by whoever configured the process, in another thread)
            s = P.parse_segment(c['text'])
            return {'ok': True, 'obs': _observe(s, [t for t in c['then'] if t != 'validate'], _ec(0))}
        if kind == 'factory' and c.get('implicit'):
            d = datatype_factory(c['dt'], c['value'])
            return {'ok': True, 'obs': {'cls': type(d).__name__, 'er7': d.to_er7(_ec(0)),
                                        'level': getattr(d, 'validation_level', None)}}
        if kind == 'parse_segment':
            ec = _ec(c['ec'])
            s = P.parse_segment(c['text'], version=c['version'], encoding_chars=ec, validation_level=c['level'])
            if hook:
                hook('alive', s)
            return {'ok': True, 'obs': _observe(s, [t for t in c['then'] if t != 'validate'], ec)}
        if kind == 'parse_field':
            ec = _ec(c['ec'])
            f = P.parse_field(c['text'], name=c['name'], version=c['version'], encoding_chars=ec,
                              validation_level=c['level'])
            if hook:
                hook('alive', f)
            return {'ok': True, 'obs': _observe(f, ['er7'], ec)}
        if kind == 'parse_component':
            ec = _ec(c['ec'])
            f = P.parse_component(c['text'], name=c['name'], version=c['version'], encoding_chars=ec,
                                  validation_level=c['level'])
            if hook:
                hook('alive', f)
            return {'ok': True, 'obs': _observe(f, ['er7'], ec)}
        if kind == 'factory':
            d = datatype_factory(c['dt'], c['value'], c['version'], c['level'])
            return {'ok': True, 'obs': {'cls': '%s.%s' % (type(d).__module__, type(d).__name__), 'er7': d.to_er7(_ec(0)),
                                        'max_length': getattr(d, 'max_length', None),
                                        'level': getattr(d, 'validation_level', None)}}
        if kind == 'segment_build':
            from hl7apy.core import Segment
            ec = _ec(c['ec'])
            sg = Segment(c['name'], version=c['version'], validation_level=c['level'])
            log = []
            for st in c['steps']:
                fname, v = st[0], st[1]
                if hook:
                    hook('alive', sg)
                try:
                    if len(st) > 2:
                        v = datatype_factory(st[2], v, c['version'], c['level'])
                    setattr(sg, fname, v)
                    log.append('ok')
                except Exception as ex:      # noqa
                    log.append('EXC ' + canon_exc(ex))
            if hook:
                hook('alive', sg)
            return {'ok': True, 'steps': log, 'obs': _observe(sg, c['then'], ec)}
        if kind == 'highlight_encode':
            from hl7apy import load_library
            from hl7apy.core import Segment
            cls = load_library(c['version']).get_base_datatypes()[c['dt']]
            sg = Segment(c['seg'], version=c['version'], validation_level=c['level'])
            setattr(sg, c['field'], cls(c['text'], highlights=SHARED_HIGHLIGHTS[c['hl']], validation_level=c['level']))
            out = [sg.to_er7(_ec(0)) for _ in range(c.get('times', 1))]
            return {'ok': True, 'obs': {'er7': out, 'hl': list(SHARED_HIGHLIGHTS[c['hl']])}}
        if kind == 'group_build':
            from hl7apy.core import Group
            g = Group(c['name'], version=c['version'], validation_level=c['level'])
            log = []
            for st in c['steps']:
                try:
                    if st[0] == 'add_segment':
                        sg = g.add_segment(st[1])
                        log.append('ok ' + sg.name)
                    else:
                        setattr(g, st[1], st[2])
                        log.append('ok')
                except Exception as ex:      # noqa
                    log.append('EXC ' + canon_exc(ex))
            return {'ok': True, 'steps': log, 'names': [ch.name for ch in g.children], 'obs': _observe(g, ['er7'], _ec(0))}
        if kind == 'component_switch':
            from hl7apy.core import Component
            comp = Component(c['name'], version=c['version'], validation_level=c['level'])
            before = [comp.datatype, sorted(comp.structure_by_name or ())[:4]]
            try:
                comp.datatype = c['d2']
                step = 'ok'
            except Exception as ex:      # noqa
                step = 'EXC ' + canon_exc(ex)
            fresh = Component(c['name'], version=c['version'], validation_level=c['level'])
            return {'ok': True, 'step': step, 'before': before, 'after': [comp.datatype, sorted(comp.structure_by_name or ())[:4]],
                    'fresh': [fresh.datatype, sorted(fresh.structure_by_name or ())[:4]]}
        if kind == 'field_override':
            from hl7apy.core import Field
            log = []
            try:
                if c['via_ctor']:
                    fld = Field(c['name'], datatype=c['d1'], version=c['version'], validation_level=c['level'])
                else:
                    fld = Field(c['name'], version=c['version'], validation_level=c['level'])
                    fld.datatype = c['d1']
                log.append('ok')
            except Exception as ex:      # noqa
                return {'ok': False, 'exc': canon_exc(ex)}
            for stage in ('v1', 'd2'):
                try:
                    if stage == 'v1':
                        fld.value = c['v1']
                    else:
                        fld.datatype = c['d2']
                    log.append('ok')
                except Exception as ex:      # noqa
                    log.append('EXC ' + canon_exc(ex))
            # a fresh, untouched field of the same name must still have the structure of the tables
            ref = Field(c['name'], version=c['version'], validation_level=c['level'])
            return {'ok': True, 'steps': log, 'dt': fld.datatype, 'kids': [ch.name for ch in fld.children],
                    'fresh': [ref.datatype, sorted(ref.structure_by_name or ())[:6]], 'obs': _observe(fld, ['er7'], _ec(0))}
        if kind == 'field_dt':
            from hl7apy.core import Field
            fld = Field(c['name'], version=c['version'], validation_level=c['level'])
            log = []
            for stage in ('v1', 'dt', 'v2'):
                if hook and stage != 'v1':
                    hook('alive', fld)
                try:
                    if stage == 'dt':
                        fld.datatype = c['dt']
                    elif c.get(stage) is not None:
                        fld.value = c[stage]
                    log.append('ok')
                except Exception as ex:      # noqa
                    log.append('EXC ' + canon_exc(ex))
            chain = [fld.datatype] + [ch.datatype for ch in fld.children] + \
                    [sc.datatype for ch in fld.children for sc in ch.children] + \
                    [type(sc.value).__name__ for ch in fld.children for sc in ch.children]
            return {'ok': True, 'steps': log, 'chain': chain, 'obs': _observe(fld, ['er7'], _ec(0))}
        if kind == 'component_add_sub':
            from hl7apy.core import Component
            comp = Component(datatype=c['dt'], version=c['version'], validation_level=c['level'])
            sub = comp.add_subcomponent(c['sub'])
            return {'ok': True, 'obs': {'sub': sub.name, 'dt': sub.datatype, 'n': len(comp.children)}}
        if kind == 'build':
            ec = _ec(c['ec'])
            m = Message(c['name'], version=c['version'], validation_level=c['level'], encoding_chars=ec)
            m.msh.msh_10 = c['ctrl']
            log = []
            for st in c['steps']:
                if hook:
                    hook('alive', m)
                try:
                    if st[0] == 'add_segment':
                        m.add_segment(st[1])
                    elif st[0] == 'seg_text':
                        setattr(m, st[1], st[2])
                    elif st[0] == 'field':
                        seg = getattr(m, st[1])
                        setattr(seg, st[2], st[3])
                    elif st[0] == 'comp':
                        fld = getattr(getattr(m, st[1]), st[2])
                        setattr(fld, st[3], st[4])
                    elif st[0] == 'grp_text':
                        setattr(m, st[1], st[2])
                    elif st[0] == 'msg_value':
                        m.value = st[1]
                    elif st[0] == 'grp_value':
                        g = m.add_group(st[1])
                        g.value = st[2]
                    elif st[0] == 'attach_touched':
                        from hl7apy.core import Segment
                        sg = Segment(st[1], version=c['version'], validation_level=c['level'])
                        setattr(sg, st[2], st[3])
                        m.add(sg)
                        setattr(getattr(m, st[1]), st[4], st[5])
                    elif st[0] == 'copy_field':
                        src = P.parse_segment(st[3], version=c['version'], encoding_chars=_ec(0), validation_level=c['level'])
                        seg = getattr(m, st[1])
                        setattr(seg, st[2], getattr(src, st[2]))
                    log.append('ok')
                except Exception as ex:       # noqa
                    log.append('EXC ' + canon_exc(ex))
            if hook:
                hook('alive', m)
            return {'ok': True, 'steps': log, 'obs': _observe(m, c['then'])}
        raise ValueError('unknown call kind %r' % kind)
    except Exception as ex:          # noqa
        return {'ok': False, 'exc': canon_exc(ex)}


def brief(c):
    d = {k: v for k, v in c.items() if k not in ('text', 'steps')}
    if 'text' in c:
        d['text'] = c['text'][:120] + ('...' if len(c['text']) > 120 else '')
    if 'steps' in c:
        d['steps'] = [[str(x)[:60] for x in s] for s in c['steps']]
    return d
