"""Reference model of an HL7 element tree (properties C09, C11, C05, C04): per parent an
insertion-ordered list of children, nothing else.  It knows positions (field / component /
subcomponent numbers) and repetition order, not datatypes; it parses text by splitting on the
separators only (generated values never contain delimiter or escape characters).

Semantics (C09): assignment replaces the addressed repetition in place or appends when absent;
add appends; delete removes exactly the addressed child; copies are by value.
"""
import itertools

_ids = itertools.count(1)


class Node:
    __slots__ = ('kind', 'key', 'kids', 'val', 'uid', 'tag')

    def __init__(self, kind, key, kids=None, val=None):
        self.kind = kind      # 'msg' 'grp' 'seg' 'fld' 'cmp' 'sub'
        self.key = key        # seg/grp/msg: name; fld/cmp/sub: position number
        self.kids = kids if kids is not None else []
        self.val = val        # sub only
        self.uid = next(_ids)
        self.tag = None       # e.g. {'datatype': 'HD'} for a field built with an overridden datatype

    def clone(self):
        n = Node(self.kind, self.key, [k.clone() for k in self.kids], self.val)
        n.tag = dict(self.tag) if self.tag else None
        return n

    def reps(self, kind, key):
        return [k for k in self.kids if k.kind == kind and k.key == key]

    def all_nodes(self):
        out = [self]
        for k in self.kids:
            out.extend(k.all_nodes())
        return out

    def __repr__(self):
        if self.kind == 'sub':
            return 'sub%s=%r' % (self.key, self.val)
        return '%s:%s%r' % (self.kind, self.key, self.kids)


CHILD_KIND = {'seg': 'fld', 'fld': 'cmp', 'cmp': 'sub'}


def text_order(node):
    """A copy by value travels through text: in the copy the fields of a segment (components of a field,
    ...) are listed in position order, repetitions in their order, whatever the insertion order of the
    original was (visible to children[i] / pop(i) only, never to the encoding)."""
    node.tag = None        # (a datatype given to the original at construction does not travel through text)
    if node.kind in ('seg', 'fld', 'cmp'):
        # present-but-empty children have no text: they are not in the copy
        node.kids = [k for k in node.kids if not _is_blank(k)]
        node.kids.sort(key=lambda k: k.key)       # stable: repetitions keep their order
    for k in node.kids:
        text_order(k)
    return node


def _is_blank(node):
    if node.kind == 'sub':
        return not node.val
    return all(_is_blank(k) for k in node.kids)


def has_empty(node):
    """Does the subtree hold a present-but-empty element (a field / component without children, a
    subcomponent without text)?  Such an element has no counterpart in text: the model does not say how
    many elements a round trip through text makes of it."""
    if node.kind == 'sub':
        return not node.val
    if node.kind in ('fld', 'cmp') and not node.kids:
        return True
    return any(has_empty(k) for k in node.kids)


# ------------------------------------------------------------------ text -> model
def sub_from_text(idx, text):
    return Node('sub', idx, val=text)


def comp_from_text(idx, text, ec):
    n = Node('cmp', idx)
    for i, piece in enumerate(text.split(ec['SUBCOMPONENT'])):
        if piece.strip():
            n.kids.append(sub_from_text(i + 1, piece))
    return n


def field_from_text(idx, text, ec):
    n = Node('fld', idx)
    for i, piece in enumerate(text.split(ec['COMPONENT'])):
        if piece.strip():
            n.kids.append(comp_from_text(i + 1, piece, ec))
    return n


def seg_from_text(text, ec):
    parts = text.split(ec['FIELD'])
    name = parts[0]
    n = Node('seg', name)
    if name == 'MSH':
        # MSH-1 is the separator itself, MSH-2 the four encoding characters: kept verbatim
        f1 = Node('fld', 1, [Node('cmp', 1, [Node('sub', 1, val=ec['FIELD'])])])
        n.kids.append(f1)
        if len(parts) > 1:
            n.kids.append(Node('fld', 2, [Node('cmp', 1, [Node('sub', 1, val=parts[1])])]))
        rest = list(enumerate(parts[2:], 3))
    else:
        rest = list(enumerate(parts[1:], 1))
    for idx, piece in rest:
        if not piece.strip():
            continue
        for rep in piece.split(ec['REPETITION']):
            n.kids.append(field_from_text(idx, rep, ec))
    return n


def segs_from_text(text, ec):
    return [seg_from_text(line.strip(), ec) for line in text.split('\r') if line.strip()]


def node_from_text(kind, key, text, ec):
    if kind == 'seg':
        return seg_from_text(text, ec)
    if kind == 'fld':
        return field_from_text(key, text, ec)
    if kind == 'cmp':
        return comp_from_text(key, text, ec)
    if kind == 'sub':
        return sub_from_text(key, text)
    raise ValueError(kind)


# ------------------------------------------------------------------ canonical forms
def canon_cmp(n):
    return {s.key: s.val for s in n.kids if s.val not in (None, '')}


def canon_fld(n):
    out = {}
    for c in n.kids:
        cc = canon_cmp(c)
        if cc:
            if c.key in out:
                out[c.key] = ('dup', out[c.key], cc)
            else:
                out[c.key] = cc
    return out


def canon_seg(n):
    fields = {}
    for f in n.kids:
        if n.key == 'MSH' and f.key in (1, 2):
            continue
        cf = canon_fld(f)
        if cf:
            fields.setdefault(f.key, []).append(cf)
    return (n.key, fields)


def flat_segs(n):
    out = []
    for k in n.kids:
        if k.kind == 'seg':
            out.append(k)
        else:
            out.extend(flat_segs(k))
    return out


def canon(n, order=None):
    """Canonical form of any node.  order(parent_node) -> kids in encoding order (used for STRICT
    groups, which encode in structure order)."""
    if n.kind == 'seg':
        return canon_seg(n)
    if n.kind == 'fld':
        return canon_fld(n)
    if n.kind == 'cmp':
        return canon_cmp(n)
    if n.kind == 'sub':
        return n.val
    out = []
    kids = order(n) if order else n.kids
    for k in kids:
        if k.kind == 'seg':
            cs = canon_seg(k)
            out.append(cs)
        else:
            out.extend(canon(k, order))
    return out


def canon_text(kind, text, ec):
    """Canonical form of an ER7 text produced by the library, for an element of `kind`."""
    if kind in ('msg', 'grp'):
        return [canon_seg(s) for s in segs_from_text(text, ec)]
    if kind == 'seg':
        return canon_seg(seg_from_text(text, ec))
    if kind == 'fld':
        return canon_fld(field_from_text(0, text, ec))
    if kind == 'cmp':
        return canon_cmp(comp_from_text(0, text, ec))
    return text


# ------------------------------------------------------------------ operations
def find_rep(parent, kind, key, r):
    reps = parent.reps(kind, key)
    if 0 <= r < len(reps):
        return reps[r]
    if r < 0 and -r <= len(reps):
        return reps[r]
    return None


def op_set(parent, kind, key, r, new):
    """Replace repetition r of (kind, key) in place, or append when absent."""
    old = find_rep(parent, kind, key, r)
    if old is None:
        parent.kids.append(new)
    else:
        i = [id(k) for k in parent.kids].index(id(old))
        parent.kids[i] = new
    return old


def op_add(parent, new):
    parent.kids.append(new)


def op_del(parent, kind, key, r):
    old = find_rep(parent, kind, key, r)
    if old is None:
        return None
    i = [id(k) for k in parent.kids].index(id(old))
    del parent.kids[i]
    return old


def op_del_at(parent, k):
    if -len(parent.kids) <= k < len(parent.kids):
        old = parent.kids[k]
        del parent.kids[k]
        return old
    return None


def ensure_path(root, path):
    """Walk `path` ([(kind, key, r)]) below root creating what is missing (appending), as a write
    at the end of a chain of attribute reads does.  Returns (node, created_nodes)."""
    cur = root
    created = []
    for kind, key, r in path:
        nxt = find_rep(cur, kind, key, r)
        if nxt is None:
            nxt = Node(kind, key)
            cur.kids.append(nxt)
            created.append(nxt)
        cur = nxt
    return cur, created


def resolve(root, path):
    cur = root
    for kind, key, r in path:
        cur = find_rep(cur, kind, key, r)
        if cur is None:
            return None
    return cur
