"""Debug helper: print a history-world replay step by step.  usage: htrace.py <replay.json>|<PROP> <index>"""
import sys, os, json
sys.path[:0] = [os.environ.get('VERIF_REPO', '/repo'), os.path.dirname(os.path.abspath(__file__))]
import importlib
from simkit import driver
from worlds import history_world as W
from models import elem_model as EM
if sys.argv[1].endswith('.json'):
    doc = json.load(open(sys.argv[1]))
    prop = importlib.import_module('props.' + doc['property'].lower())
    prop.setup()
    case = doc['case']
    print('VIOLATION', doc['violation'])
else:
    prop = importlib.import_module('props.' + sys.argv[1].lower())
    prop.setup()
    i = int(sys.argv[2])
    seed = driver.run_seed(int(os.environ.get('VERIF_SEED', '0')), prop.ID, i)
    case = prop.generate(seed, i, 'quick')
    res = prop.execute(case)
    case = prop.with_recording(case, res)
print('INIT', json.dumps(case['init'])[:600])
orig_step = W.HistoryWorld.step
def step(self, op, n):
    print('--- op %d: %s' % (n, json.dumps(op)[:700]))
    orig_step(self, op, n)
    for s in self.suts:
        if not s.alive: continue
        for ri in range(len(s.roots)):
            print('   %s root%d er7=%r' % (s.tag, ri, s.er7(ri)[:400]))
            m = s.models[ri]
            print('        model=%s' % (repr(EM.canon(m, self.model_order(s, ri)))[:400] if m is not None else 'LOST'))
        print('   last_exc', repr(s.last_exc)[:200])
W.HistoryWorld.step = step
w = W.execute(case, None)
for v in w.violations: print('V', v['monitor'], '|', v['signature'], '|', v['detail'][:500])
