"""Determinism self-test (DESIGN §3.7): for every claimed property, the digests of N run indices
must be identical
  - executed twice,
  - at worker counts 1 and 16,
  - under PYTHONHASHSEED 0 and 7 (fresh interpreters),
  - in a warm pool process and in a cold process that executes only that index.
usage: ./check selftest-determinism [ID ...] [--n N]
"""
import os
import sys
import json
import tempfile
import subprocess

VERIF = os.path.dirname(os.path.dirname(os.path.abspath(__file__)))
PROPS = ['C16', 'C19', 'C17', 'C09', 'C10', 'C11', 'C12', 'C05', 'C04']
N = {'C16': 600, 'C19': 60, 'C17': 300, 'C09': 600, 'C10': 600, 'C11': 600, 'C12': 600, 'C05': 400, 'C04': 400}


def run(prop, n, workers, hashseed, first=0):
    fd, path = tempfile.mkstemp(prefix='verif-det-', suffix='.json')
    os.close(fd)
    env = dict(os.environ, PYTHONHASHSEED=str(hashseed), VERIF_FORCE_HASHSEED=str(hashseed))
    cmd = ['/venv/bin/python', '-X', 'faulthandler', os.path.join(VERIF, 'checkmain.py'), prop, '--runs', str(n),
           '--first', str(first), '--workers', str(workers), '--no-evidence', '--no-minimise', '--digest-dump', path,
           '--budget', '600']
    env['PYTHONPATH'] = '%s:%s' % (os.environ.get('VERIF_REPO', '/repo'), VERIF)
    env['PYTHONDONTWRITEBYTECODE'] = '1'
    p = subprocess.run(cmd, capture_output=True, text=True, env=env, timeout=1800)
    try:
        with open(path) as f:
            d = json.load(f)
    except Exception:
        d = None
    finally:
        os.unlink(path)
    return p.returncode, d, p.stdout[-600:] + p.stderr[-600:]


def main(argv):
    sel = [a for a in argv if not a.startswith('--')]
    scale = 1.0
    if '--n' in argv:
        scale = None
        n_override = int(argv[argv.index('--n') + 1])
        sel = [a for a in sel if a != str(n_override)]
    props = sel or PROPS
    bad = 0
    todo = []
    for prop in props:
        if prop == 'C19' and scale is not None:
            # one range per kind of run-index block: enumerated sweep, random, cold-import sweep
            # ... and fractional / lookup-layer sweep (block 1)
            todo += [('C19', 0, 40), ('C19', 128, 40), ('C19', 256, 30), ('C19', 512, 40), ('C19', 896, 30)]
        else:
            todo.append((prop, 0, n_override if scale is None else N[prop]))
    for prop, first0, n in todo:
        configs = [('w16 hash0', 16, 0), ('w16 hash0 again', 16, 0), ('w1 hash0', 1, 0), ('w16 hash7', 16, 7)]
        if prop in ('C19',):
            configs[2] = ('w3 hash0', 3, 0)
        base = None
        ok = True
        for label, w, hs in configs:
            rc, d, tail = run(prop, n if w > 1 else max(10, n // 8), w, hs, first=first0)
            if d is None or rc == 2:
                print('%s %-16s HARNESS rc=%s %s' % (prop, label, rc, tail.replace('\n', ' | ')[-300:]))
                ok = False
                continue
            if base is None:
                base = d
                continue
            diff = [k for k in d if k in base and base[k] != d[k]]
            if diff:
                print('%s %-16s NONDETERMINISM at run indices %s' % (prop, label, diff[:10]))
                ok = False
        # cold process: a handful of single indices, each in a process that runs nothing else
        for i in (first0, first0 + n // 2, first0 + n - 1):
            rc, d, tail = run(prop, 1, 1, 0, first=i)
            if d is None or base is None or d.get(str(i)) != base.get(str(i)):
                print('%s cold index %d differs (%s vs %s)' % (prop, i, d and d.get(str(i)), base and base.get(str(i))))
                ok = False
        print('%s determinism: %s (indices %d..%d x %d configurations + 3 cold)' % (prop, 'ok' if ok else 'FAILED', first0, first0 + n - 1, len(configs)))
        sys.stdout.flush()
        if not ok:
            bad += 1
    return 0 if bad == 0 else 2
