"""setup_cmd: nothing to build; verify the interpreter and the seams the simulator relies on."""
import sys


def main(argv):
    ok = True
    if sys.version_info[:2] < (3, 12) or not hasattr(sys, 'monitoring'):
        print('SETUP-ERROR need CPython >= 3.12 with sys.monitoring, have %s' % sys.version)
        ok = False
    import socketserver
    for attr in ('socket', 'threading'):
        if not hasattr(socketserver, attr):
            print('SETUP-ERROR socketserver.%s missing' % attr)
            ok = False
    import hl7apy.core
    if not hasattr(hl7apy.core, 'datetime'):
        print('SETUP-ERROR hl7apy.core.datetime seam missing')
        ok = False
    from simkit import instr, kernel
    instr.instrument_hl7apy()
    print('setup ok: python %s, %d code objects instrumented, hl7apy from %s' % (
        sys.version.split()[0], kernel.instrumented_count(), hl7apy.__file__))
    return 0 if ok else 2
