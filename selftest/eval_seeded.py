"""Confirm a change proposed by an independent sub-agent and file it under /verif/seeded/<name>/.

usage: /venv/bin/python selftest/eval_seeded.py <out-dir with patch.diff demo.py notes.md> <property id> <name> [--props C09,C12]
Steps (all in a scratch copy under /tmp that is removed at the end):
  1. the patch applies to the current /repo tree,
  2. the 353 tests pass with it (run in a private network namespace when available: fixed MLLP ports),
  3. the demonstration passes on the unchanged tree and fails on the changed one,
  4. the quick check of the property (and of --props) is run against the changed tree.
"""
import os
import re
import sys
import json
import shutil
import tempfile
import subprocess

VERIF = os.path.dirname(os.path.dirname(os.path.abspath(__file__)))


def sh(cmd, **kw):
    return subprocess.run(cmd, capture_output=True, text=True, **kw)


def main():
    src, prop, name = sys.argv[1:4]
    props = [prop]
    if '--props' in sys.argv:
        props = sys.argv[sys.argv.index('--props') + 1].split(',')
    runs = None
    if '--runs' in sys.argv:
        runs = sys.argv[sys.argv.index('--runs') + 1]
    clean = tempfile.mkdtemp(prefix='verif-seed-clean-')
    mut = tempfile.mkdtemp(prefix='verif-seed-mut-')
    meta = {'property': prop, 'name': name, 'source': 'independent sub-agent given only the property text and a scratch worktree'}
    try:
        for d in (clean, mut):
            for sub in ('hl7apy', 'tests'):
                shutil.copytree(os.path.join('/repo', sub), os.path.join(d, sub), ignore=shutil.ignore_patterns('__pycache__'))
        p = sh(['patch', '-p1', '-s', '-i', os.path.join(src, 'patch.diff')], cwd=mut)
        meta['patch_applies'] = p.returncode == 0
        if p.returncode != 0:
            print('PATCH FAILED', p.stdout, p.stderr)
            return 1
        unshare = ['unshare', '-n', '-r'] if sh(['unshare', '-n', '-r', 'true']).returncode == 0 else []
        t = sh(unshare + ['bash', '-c', 'ip link set lo up 2>/dev/null; cd %s && PYTHONPATH=%s /venv/bin/python -m pytest -q -p no:cacheprovider -x 2>&1 | tail -3' % (mut, mut)])
        meta['tests'] = t.stdout.strip().splitlines()[-1] if t.stdout.strip() else t.stderr[-200:]
        print('tests:', meta['tests'])
        d1 = sh(unshare + ['bash', '-c', 'ip link set lo up 2>/dev/null; HL7APY_ROOT=%s timeout 300 /venv/bin/python %s' % (clean, os.path.join(src, 'demo.py'))])
        d2 = sh(unshare + ['bash', '-c', 'ip link set lo up 2>/dev/null; HL7APY_ROOT=%s timeout 300 /venv/bin/python %s' % (mut, os.path.join(src, 'demo.py'))])
        meta['demo_clean'] = {'rc': d1.returncode, 'tail': d1.stdout[-200:]}
        meta['demo_changed'] = {'rc': d2.returncode, 'tail': d2.stdout[-400:]}
        print('demo clean rc=%d changed rc=%d' % (d1.returncode, d2.returncode))
        meta['checks'] = {}
        for pr in props:
            cmd = [os.path.join(VERIF, 'check'), pr, '--tier', 'quick', '--no-evidence', '--no-minimise']
            if runs:
                cmd += ['--runs', runs]
            c = sh(cmd, env=dict(os.environ, VERIF_REPO=mut), timeout=3600)
            out = c.stdout + c.stderr
            mons = sorted(set(re.findall(r'monitor=(\S+) signature=([^\n]*?) detail=', out)))
            meta['checks'][pr] = {'rc': c.returncode, 'caught': c.returncode == 1 and 'VIOLATION property=%s' % pr in out,
                                  'monitors': [list(m) for m in mons][:6], 'cmd': ' '.join(cmd[1:]),
                                  'summary': [l for l in out.splitlines() if l.startswith(pr + ':')][-1:]}
            print('check %s: rc=%d caught=%s %s' % (pr, c.returncode, meta['checks'][pr]['caught'], [m[0] for m in mons][:4]))
            if c.returncode == 2:
                print(out[-1500:])
        meta['caught_by'] = [pr for pr in props if meta['checks'][pr]['caught']]
        confirmed = meta['patch_applies'] and '353 passed' in meta['tests'] and d1.returncode == 0 and d2.returncode != 0
        meta['confirmed'] = confirmed
        if confirmed:
            dst = os.path.join(VERIF, 'seeded', name)
            os.makedirs(dst, exist_ok=True)
            for f in ('patch.diff', 'demo.py', 'notes.md'):
                if os.path.exists(os.path.join(src, f)):
                    shutil.copy(os.path.join(src, f), os.path.join(dst, f))
            old = {}
            if os.path.exists(os.path.join(dst, 'meta.json')):
                old = json.load(open(os.path.join(dst, 'meta.json')))
                old_checks = old.get('checks', {})
                old_checks.update(meta['checks'])
                meta['checks'] = old_checks
                meta['caught_by'] = sorted(pr for pr, v in meta['checks'].items() if v['caught'])
            try:
                notes = open(os.path.join(src, 'notes.md')).read()
                meta['needs'] = notes[:1200]
            except Exception:
                pass
            meta['ran'] = ['patch -p1 on a scratch copy of /repo', 'pytest (353 passed required)', 'demo.py on unchanged and changed tree',
                           'VERIF_REPO=<changed copy> ./check <ID> --tier quick --no-evidence --no-minimise']
            json.dump(meta, open(os.path.join(dst, 'meta.json'), 'w'), indent=1, sort_keys=True)
            print('filed under', dst, 'caught_by', meta['caught_by'])
        else:
            print('NOT CONFIRMED', json.dumps(meta, indent=1)[:1500])
        return 0
    finally:
        shutil.rmtree(clean, ignore_errors=True)
        shutil.rmtree(mut, ignore_errors=True)


if __name__ == '__main__':
    sys.exit(main())
