"""Produce /verif/regressions/<ID>/<name>.json: for every reverted-fix mutant (and optionally other
mutants) run the property's check against the mutated scratch copy, take the first minimised replay
file it writes and keep its case.  These cases are then re-executed at the start of every run of
that check on the real tree (simkit/driver.py), so a repaired defect that returns is reported at
once, not only when the seeded search happens to meet it again.

usage: /venv/bin/python selftest/make_regressions.py [name-substring ...]
"""
import os
import re
import sys
import glob
import json
import shutil
import tempfile
import subprocess

VERIF = os.path.dirname(os.path.dirname(os.path.abspath(__file__)))


def main():
    sel = sys.argv[1:]
    patches = sorted(glob.glob(os.path.join(VERIF, 'selftest', 'mutants', '*-r-*.patch')))
    for p in patches:
        name = os.path.basename(p)[:-6]
        if sel and not any(s in name for s in sel):
            continue
        prop = re.match(r'(C\d+)', name).group(1)
        out = os.path.join(VERIF, 'regressions', prop, name[:40].rstrip('-') + '.json')
        if os.path.exists(out) and '--force' not in sys.argv:
            print('have', out)
            continue
        d = tempfile.mkdtemp(prefix='verif-reg-')
        rdir = os.path.join(VERIF, 'replays', prop)
        try:
            shutil.copytree('/repo/hl7apy', os.path.join(d, 'hl7apy'), ignore=shutil.ignore_patterns('__pycache__'))
            if subprocess.run(['patch', '-p1', '-s', '-i', p], cwd=d).returncode != 0:
                print('patch failed', name)
                continue
            before = set(os.listdir(rdir)) if os.path.isdir(rdir) else set()
            env = dict(os.environ, VERIF_REPO=d)
            c = subprocess.run([os.path.join(VERIF, 'check'), prop, '--no-evidence', '--max-report', '2', '--no-regressions',
                                '--runs', '12000' if prop != 'C19' else '2048'],
                               capture_output=True, text=True, env=env, timeout=3600)
            new = sorted(f for f in (set(os.listdir(rdir)) if os.path.isdir(rdir) else set()) - before
                         if f.endswith('.json') and not f.endswith('.raw.json'))
            if not new:
                print('no minimised replay for', name, c.stdout[-300:])
                continue
            # keep the smallest case
            best = min(new, key=lambda f: os.path.getsize(os.path.join(rdir, f)))
            doc = json.load(open(os.path.join(rdir, best)))
            keep = {'property': prop, 'from_mutant': name, 'violation_on_mutant': doc['violation'], 'seed': doc.get('seed', 0),
                    'case': doc['case']}
            os.makedirs(os.path.dirname(out), exist_ok=True)
            json.dump(keep, open(out, 'w'), indent=1, sort_keys=True)
            print('wrote', out, doc['violation']['monitor'], '|', doc['violation']['signature'][:80])
        finally:
            shutil.rmtree(d, ignore_errors=True)


if __name__ == '__main__':
    main()
