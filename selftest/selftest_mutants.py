"""Sensitivity self-test: apply each patch in selftest/mutants (or seeded/*/patch.diff) to a
scratch copy of the repository and require the property's check to raise the alarm.

usage: ./check selftest-mutants [ID-prefix ...] [--runs N] [--seeded] [--cross]
The scratch copy lives under /tmp and is removed as soon as the mutant has been judged.
"""
import os
import re
import sys
import glob
import json
import shutil
import tempfile
import subprocess

VERIF = os.path.dirname(os.path.dirname(os.path.abspath(__file__)))
REPO = os.environ.get('VERIF_REPO', '/repo')


def _prop_of(name):
    m = re.match(r'(C\d+)', os.path.basename(name))
    return m.group(1) if m else None


def run_one(patch, prop, runs, extra=()):
    d = tempfile.mkdtemp(prefix='verif-mut-')
    try:
        shutil.copytree(os.path.join(REPO, 'hl7apy'), os.path.join(d, 'hl7apy'),
                        ignore=shutil.ignore_patterns('__pycache__'))
        p = subprocess.run(['patch', '-p1', '-s', '-i', patch], cwd=d, capture_output=True, text=True)
        if p.returncode != 0:
            return 'patch-failed', p.stdout + p.stderr
        env = dict(os.environ, VERIF_REPO=d)
        cmd = [os.path.join(VERIF, 'check'), prop, '--no-evidence', '--no-minimise', '--stop-first'] + list(extra)
        if runs:
            cmd += ['--runs', str(runs)]
        p = subprocess.run(cmd, capture_output=True, text=True, env=env, timeout=1800)
        out = p.stdout + p.stderr
        if p.returncode == 1 and 'VIOLATION property=%s' % prop in out:
            mons = sorted(set(re.findall(r'monitor=(\S+)', out)))
            m = re.search(r'the first at run index (\S+)', out)
            return 'caught', ','.join(mons) + (' @%s' % m.group(1) if m else '')
        if p.returncode == 0:
            return 'missed', out[-400:]
        return 'harness-error(%d)' % p.returncode, out[-1500:]
    finally:
        shutil.rmtree(d, ignore_errors=True)


def main(argv):
    runs = None
    seeded = False
    sel = []
    it = iter(argv)
    for a in it:
        if a == '--runs':
            runs = int(next(it))
        elif a == '--seeded':
            seeded = True
        elif a == '--neutral':
            sel.append(a)
        else:
            sel.append(a)
    patches = sorted(glob.glob(os.path.join(VERIF, 'selftest', 'mutants', '*.patch')))
    if '--neutral' in argv:
        # changes under which the property still holds (e.g. a correct lock around shared state): every
        # check must stay quiet and must not hang
        sel = [a for a in sel if a != '--neutral']
        bad = 0
        for p in sorted(glob.glob(os.path.join(VERIF, 'selftest', 'neutral', '*.patch'))):
            name = os.path.basename(p)[:-6]
            status, info = run_one(p, _prop_of(name), runs)
            ok = status == 'missed'
            print('%-56s %-4s %s' % (name, _prop_of(name), 'quiet' if ok else 'FALSE ALARM / ' + status))
            if not ok:
                bad += 1
                print('    ' + info.replace('\n', '\n    ')[:1500])
            sys.stdout.flush()
        print('neutral changes: %d not quiet' % bad)
        return 0 if bad == 0 else 1
    if seeded:
        patches = sorted(glob.glob(os.path.join(VERIF, 'seeded', '*', 'patch.diff')))
    bad = 0
    results = {}
    for p in patches:
        name = os.path.basename(p)[:-6] if not seeded else os.path.basename(os.path.dirname(p))
        if sel and not any(name.startswith(s) or s in name for s in sel):
            continue
        if seeded:
            meta = json.load(open(os.path.join(os.path.dirname(p), 'meta.json')))
            props = meta.get('caught_by') or [meta['property']]
        else:
            props = [_prop_of(name)]
        for prop in props:
            status, info = run_one(p, prop, runs)
            results['%s@%s' % (name, prop)] = status
            print('%-48s %-4s %-16s %s' % (name, prop, status, info if status == 'caught' else ''))
            if status != 'caught':
                bad += 1
                print('    ' + info.replace('\n', '\n    '))
            sys.stdout.flush()
    print('mutants: %d judged, %d not caught' % (len(results), bad))
    return 0 if bad == 0 else 1
