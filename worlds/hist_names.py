"""Table-derived naming for the history world: how a canonical path step (kind, position) is
spelled as an attribute name on the real API (canonical name, upper case, long name, positional
path), and which datatype / reference a position has in a given version.
"""
from models import tables as T


class Ctx:
    """Where we are in the structure while walking a path from a root."""
    __slots__ = ('version', 'kind', 'name', 'ref', 'dt', 'seg', 'fidx', 'cidx', 'parent_ref')

    def __init__(self, version, kind, name, ref=None, dt=None, seg=None, fidx=None, cidx=None):
        self.version = version
        self.kind = kind
        self.name = name
        self.ref = ref
        self.dt = dt
        self.seg = seg
        self.fidx = fidx
        self.cidx = cidx


def root_ctx(version, kind, name):
    if kind == 'msg':
        return Ctx(version, 'msg', name, T.message_ref(version, name))
    if kind == 'grp':
        return Ctx(version, 'grp', name, T.groups(version).get(name))
    if kind == 'seg':
        return Ctx(version, 'seg', name, T.segments(version).get(name), seg=name)
    if kind == 'fld':
        seg, idx = name.rsplit('_', 1)
        ref = field_ref(version, seg, int(idx))
        return Ctx(version, 'fld', name, ref, ref[2] if ref else 'ST', seg=seg, fidx=int(idx))
    raise ValueError(kind)


def field_ref(version, seg, idx):
    fl = T.seg_fields(version, seg)
    if 1 <= idx <= len(fl):
        return fl[idx - 1][1]
    return None


def field_card(version, seg, idx):
    fl = T.seg_fields(version, seg)
    if 1 <= idx <= len(fl):
        return fl[idx - 1][2]
    return (0, -1)


def child_entry(ref, idx):
    if ref is None or ref[0] != 'sequence' or not ref[1]:
        return None
    if 1 <= idx <= len(ref[1]):
        return ref[1][idx - 1]
    return None


def step_ctx(ctx, t, key):
    """Context of the child (t, key) of ctx, from the tables."""
    v = ctx.version
    if t in ('seg', 'grp'):
        ref = None
        if ctx.ref is not None and ctx.ref[0] in ('sequence', 'choice'):
            for c in ctx.ref[1]:
                if c[0] == key:
                    ref = c[1]
                    break
        if ref is None and t == 'seg':
            ref = T.segments(v).get(key)
        return Ctx(v, t, key, ref, seg=key if t == 'seg' else None)
    if t == 'fld':
        ref = None
        if ctx.ref is not None and len(ctx.ref) > 1 and ctx.ref[1]:
            e = child_entry(ctx.ref, key) if all(isinstance(c, (tuple, list)) and len(c) == 4 for c in ctx.ref[1]) else None
            ref = e[1] if e else None
        dt = ref[2] if ref is not None else 'ST'
        return Ctx(v, 'fld', '%s_%d' % (ctx.name, key), ref, dt, seg=ctx.name, fidx=key)
    if t == 'cmp':
        if ctx.dt is None or T.is_base(v, ctx.dt) or ctx.dt == 'varies':
            return Ctx(v, 'cmp', ctx.dt or 'ST', None, ctx.dt or 'ST', seg=ctx.seg, fidx=ctx.fidx, cidx=key)
        e = child_entry(ctx.ref, key)
        ref = e[1] if e else None
        dt = ref[2] if ref is not None else None
        return Ctx(v, 'cmp', '%s_%d' % (ctx.dt, key), ref, dt, seg=ctx.seg, fidx=ctx.fidx, cidx=key)
    if t == 'sub':
        if ctx.dt is None or T.is_base(v, ctx.dt):
            return Ctx(v, 'sub', ctx.dt or 'ST', None, ctx.dt or 'ST', seg=ctx.seg, fidx=ctx.fidx, cidx=ctx.cidx)
        e = child_entry(ctx.ref, key)
        ref = e[1] if e else None
        dt = ref[2] if ref is not None else None
        return Ctx(v, 'sub', '%s_%d' % (ctx.dt, key), ref, dt, seg=ctx.seg, fidx=ctx.fidx, cidx=ctx.cidx)
    raise ValueError(t)


def _long_name_unique(parent_ref, ref):
    if ref is None or len(ref) < 4 or not ref[3] or parent_ref is None:
        return None
    ln = ref[3]
    n = 0
    for c in parent_ref[1] or ():
        if isinstance(c, (tuple, list)) and len(c) == 4 and c[1] is not None and len(c[1]) > 3 and c[1][3] == ln:
            n += 1
        if isinstance(c, (tuple, list)) and c[0] == ln:
            return None
    return ln if n == 1 else None


_RESERVED = None


def reserved_names():
    """Attribute names that mean something else on an Element than a child lookup."""
    global _RESERVED
    if _RESERVED is None:
        from hl7apy import core
        r = set()
        for cls in (core.Message, core.Group, core.Segment, core.Field, core.Component, core.SubComponent,
                    core.ElementProxy, core.ElementList):
            r.update(n.lower() for n in dir(cls))
            r.update(n.lower() for n in getattr(cls, 'cls_attrs', ()))
        _RESERVED = r
    return _RESERVED


def spell(parent_ctx, child_ctx, t, key, sp):
    """Attribute name to use on the element at parent_ctx to reach child (t, key).
    sp: 0 canonical lower, 1 canonical upper, 2 long name, 3 positional path."""
    name = child_ctx.name
    if sp == 2:
        ln = _long_name_unique(parent_ctx.ref, child_ctx.ref)
        if ln and ln.isidentifier() and ln.lower() not in reserved_names():
            return ln.lower()
    if sp == 3 and t == 'cmp' and parent_ctx.kind == 'fld' and parent_ctx.seg and parent_ctx.fidx:
        return ('%s_%d_%d' % (parent_ctx.seg, parent_ctx.fidx, key)).lower()
    if sp == 1:
        return str(name).upper()
    return str(name).lower()


def factory_method(t):
    return {'seg': 'add_segment', 'grp': 'add_group', 'fld': 'add_field', 'cmp': 'add_component',
            'sub': 'add_subcomponent'}[t]
