"""C04 monitors over histories and under report-file faults (DESIGN §7.7, items 1-5)."""
from simkit.util import canon_exc, canon_text


def _norm(r):
    return [bool(r.is_valid), [canon_text(str(x)) for x in r.errors], [canon_text(str(x)) for x in r.warnings]]


def run(world, sut, op):
    import hl7apy.validation as V
    ri = op.get('root', 0)
    e = sut.nav(ri, op.get('p', []))
    variant = op.get('variant', 'errors')
    step = len(world.ops_done) - 1
    fs = world.fs
    # the reporting form is the reference for everything else
    r1 = e.validate(return_errors=True)
    n1 = _norm(r1)
    if variant == 'errors':
        r2 = e.validate(return_errors=True)
        if _norm(r2) != n1:
            world.violate('C04.deterministic', 'two consecutive validate(return_errors=True) calls disagree',
                          '%r vs %r' % (n1, _norm(r2)), step)
        if bool(r1.is_valid) != (len(r1.errors) == 0):
            world.violate('C04.is_valid', 'is_valid disagrees with the error list',
                          'is_valid=%r errors=%d' % (r1.is_valid, len(r1.errors)), step)
        world.probe('c04_errors_form')
        world.probe('c04_invalid_state' if r1.errors else 'c04_valid_state')
        verdict(world, sut, op, ri, n1, step)
        return n1
    if variant == 'raise':
        try:
            ret = e.validate()
            exc = None
        except Exception as ex:        # noqa
            ret, exc = None, ex
        if r1.errors:
            first = r1.errors[0]
            if exc is None:
                world.violate('C04.raise_first', 'raising form returns although errors were reported',
                              'returned %r, first error %s' % (ret, first), step)
            elif type(exc) is not type(first) or canon_text(str(exc)) != canon_text(str(first)):
                world.violate('C04.raise_first', 'raising form raises something else than the first reported error',
                              'raised %s, first error %s' % (canon_exc(exc), canon_exc(first)), step)
            world.probe('c04_raise_with_errors')
        else:
            if exc is not None:
                world.violate('C04.raise_first', 'raising form raises although no error is reported', canon_exc(exc), step)
            elif ret is not True:
                world.violate('C04.raise_first', 'raising form does not return True for a valid element', repr(ret), step)
            world.probe('c04_raise_valid')
        return [n1, canon_exc(exc) if exc else None]
    if variant == 'force_parse':
        # parse_message(text, force_validation=True, report_file=...) must behave like parsing and then
        # calling the raising form: raise the first reported error of the parsed message, or return it
        from hl7apy.parser import parse_message
        if e.classname != 'Message' or sut.meta[ri].get('profile'):
            return n1
        text = e.to_er7()
        lvl = e.validation_level
        try:
            ref_msg = parse_message(text, validation_level=lvl, find_groups=op.get('find_groups', True))
        except Exception as ex:       # noqa
            return [n1, 'reparse ' + canon_exc(ex)]
        ref = ref_msg.validate(return_errors=True)
        fs.reset()
        fobj = fs.file_object()
        try:
            got = parse_message(text, validation_level=lvl, find_groups=op.get('find_groups', True), force_validation=True,
                                report_file=fobj)
            exc = None
        except Exception as ex:       # noqa
            got, exc = None, ex
        expected_rep = ''.join('Error: %s\n' % x for x in ref.errors) + ''.join('Warning: %s\n' % x for x in ref.warnings)
        if ref.errors:
            if exc is None or canon_text(str(exc)) != canon_text(str(ref.errors[0])):
                world.violate('C04.raise_first', 'parse_message(force_validation=True) does not raise the first reported error',
                              '%s vs %s' % (canon_exc(exc) if exc else None, canon_exc(ref.errors[0])), step)
        elif exc is not None:
            world.violate('C04.raise_first', 'parse_message(force_validation=True) raises although no error is reported',
                          canon_exc(exc), step)
        elif got.to_er7() != ref_msg.to_er7():
            world.violate('C04.deterministic', 'parse_message(force_validation=True) returns another message', '', step)
        if fobj.content() != expected_rep:
            world.violate('C04.report', 'report file does not list exactly the reported errors and warnings (force_validation)',
                          'file=%r expected=%r' % (fobj.content()[:300], expected_rep[:300]), step)
        world.probe('c04_force_validation_parse')
        return [n1, canon_exc(exc) if exc else None]
    # report variants
    expected = ''.join('Error: %s\n' % x for x in r1.errors) + ''.join('Warning: %s\n' % x for x in r1.warnings)
    fault = op.get('fault')
    fs.reset()
    fs.plan = fault
    had_open = 'open' in V.__dict__
    old_open = V.__dict__.get('open')
    V.open = fs.open
    try:
        target = '/sim/report-%d.txt' % step if variant == 'report_path' else fs.file_object()
        if variant == 'report_path' and op.get('stale'):
            # a report path is reused: what an earlier validation wrote there must be gone afterwards
            fs.preload(target, 'Error: stale line of an earlier report\n' * 40)
            world.probe('c04_report_over_stale_file')
        form = op.get('form', 'errors')
        try:
            if form == 'errors':
                ret = e.validate(report_file=target, return_errors=True)
            else:
                ret = e.validate(report_file=target)
            exc = None
        except Exception as ex:       # noqa
            ret, exc = None, ex
    finally:
        if had_open:
            V.open = old_open
        else:
            del V.open
    f = fs.files.get(target if variant == 'report_path' else '<object>')
    content = f.content() if f is not None else None
    fired = list(fs.fired)
    for name in fired:
        world.fault('report_file_%s_error' % name)
    is_io = isinstance(exc, OSError)
    completed = exc is None or not is_io       # returned, or raised its own ValidationError
    if fired:
        world.probe('c04_report_fault_fired')
        if completed:
            world.violate('C04.report_io', 'validate() completes although writing the report failed (%s error swallowed)' % fired[0],
                          'returned %r / raised %s; file holds %r' % (ret, canon_exc(exc) if exc else None, (content or '')[:120]), step)
    else:
        if is_io:
            world.violate('C04.report', 'validate() raises an I/O error although none was injected', canon_exc(exc), step)
        elif content != expected:
            world.violate('C04.report', 'report file does not list exactly the reported errors and warnings (%s)' % variant,
                          'file=%r expected=%r' % ((content or '')[:300], expected[:300]), step)
        else:
            world.probe('c04_report_exact')
            if expected:
                world.probe('c04_report_nonempty')
        if form == 'errors' and exc is None and _norm(ret) != n1:
            world.violate('C04.deterministic', 'validate with a report file reports something else than without',
                          '%r vs %r' % (_norm(ret), n1), step)
        if form == 'raise':
            if r1.errors and (exc is None or canon_text(str(exc)) != canon_text(str(r1.errors[0]))):
                world.violate('C04.raise_first', 'raising form (with report) raises something else than the first reported error',
                              '%s vs %s' % (canon_exc(exc) if exc else None, canon_exc(r1.errors[0])), step)
    return [n1, fired, canon_exc(exc) if exc else None]


def verdict(world, sut, op, ri, n1, step):
    """Monitor 6 (DESIGN §7.7): predicted structural defects must each be named by an error; a state
    without predicted defect, reached from a clean start by valid writes only, must validate."""
    from models import validator_model as VM
    if op.get('p'):
        return
    m = sut.models[ri]
    meta = sut.meta[ri]
    if meta['kind'] not in ('msg', 'seg') or meta.get('profile'):
        return
    errors = n1[1]
    # unknown elements (no name) that are still attached somewhere below this root
    root_el = sut.roots[ri]
    live_unknown = []
    for u in getattr(sut, 'unknown', []):
        node = u
        attached = True
        while node is not root_el:
            p_ = node.parent
            if p_ is None or not any(c is node for c in p_.children.list):
                attached = False          # (a removed element keeps a stale parent pointer)
                break
            node = p_
        if attached:
            live_unknown.append(u)
    if live_unknown:
        world.probe('c04_unknown_element_present')
        u = live_unknown[0]
        seg = u.parent
        # the validator does not descend into a child it has already reported as not allowed: the
        # unknown element must be named only when its segment is itself in its place
        in_place = seg is root_el
        if not in_place and meta['kind'] == 'msg' and seg.parent is root_el:
            from models import tables as T
            ref = T.messages(meta['version']).get(meta['name'])
            in_place = ref is not None and any(c[0] == seg.name and c[3] == 'SEG' for c in (ref[1] or ()))
        if n1[0]:
            world.violate('C04.verdict', 'is_valid is True although an unknown (unnamed) element is present',
                          'under %r' % (seg,), step)
        elif in_place and not any(('Unknown element' in e_ or 'None' in e_) for e_ in errors):
            world.violate('C04.verdict', 'an unknown (unnamed) element is not reported by validate()',
                          'under %r; errors=%r' % (seg, errors[:5]), step)
        return
    if m is None:
        return
    defects = VM.predict(m, meta['version'])
    if defects is None:
        return
    world.probe('c04_verdict_checked')
    for d in defects:
        if not VM.named(d, errors):
            world.violate('C04.verdict', 'a %s child is not reported by validate()' % {
                'missing': 'missing required', 'exceeded': 'surplus (maximum exceeded)', 'not_allowed': 'not allowed',
                'datatype': 'wrongly shaped (base datatype with several parts)'}[d[0]],
                '%s %s in %s; errors=%r' % (d[0], d[1], d[2], errors[:6]), step)
            break
    if defects:
        world.probe('c04_predicted_defect_' + defects[0][0])
        if n1[0]:
            world.violate('C04.verdict', 'is_valid is True although the structure has a defect', repr(defects[:3]), step)
    else:
        clean_start = getattr(sut, 'clean_start', None)
        if clean_start is None:
            return
        if clean_start and not getattr(sut, 'wrote_invalid', False):
            world.probe('c04_conforming_state_checked')
            if errors:
                world.violate('C04.verdict', 'a conforming element (clean start, valid writes, no structural defect) fails validation',
                              repr(errors[:4]), step)
