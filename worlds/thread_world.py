"""Thread world (C19) and defaults world (C17): K actor threads, each running a program of
public-API calls (models/corpus.py), under the kernel's seeded line-level scheduler.  An
optional configurator actor calls hl7apy.set_default_* (C17).
"""
import hashlib

from simkit import kernel as K
from models import corpus

_SHIPPED = None


def shipped_defaults():
    """(version, level, encoding chars dict copy, 2.7 encoding chars dict copy) as shipped."""
    global _SHIPPED
    if _SHIPPED is None:
        from hl7apy import consts
        _SHIPPED = (consts.DEFAULT_VERSION, consts.VALIDATION_LEVEL.TOLERANT,
                    dict(consts.DEFAULT_ENCODING_CHARS), dict(consts.DEFAULT_ENCODING_CHARS_27))
    return _SHIPPED


def restore_defaults():
    import hl7apy
    from hl7apy import consts
    v, l, ec, ec27 = shipped_defaults()
    # the shipped dict object itself may have been aliased/mutated by set_default_encoding_chars
    consts.DEFAULT_ENCODING_CHARS.clear()
    consts.DEFAULT_ENCODING_CHARS.update(ec)
    consts.DEFAULT_ENCODING_CHARS_27.clear()
    consts.DEFAULT_ENCODING_CHARS_27.update(ec27)
    hl7apy._DEFAULT_ENCODING_CHARS = consts.DEFAULT_ENCODING_CHARS
    hl7apy._DEFAULT_ENCODING_CHARS_27 = consts.DEFAULT_ENCODING_CHARS_27
    hl7apy._DEFAULT_VERSION = v
    hl7apy._DEFAULT_VALIDATION_LEVEL = l


def purge_version_modules(version):
    """Forget a version library so that its next use imports it again (cold-import runs)."""
    import sys
    name = 'hl7apy.v' + version.replace('.', '_')
    for k in list(sys.modules):
        if k == name or k.startswith(name + '.'):
            del sys.modules[k]
    from models import tables as T
    T._cache.pop(version, None)


def _walk_table(o, seen, h):
    """Deterministic content digest of a table: every distinct container is hashed once and referred to
    by its first-visit number afterwards (the tables share sub-structures heavily)."""
    if isinstance(o, (list, tuple, dict)):
        i = id(o)
        n = seen.get(i)
        if n is not None:
            h.update(b'R%d;' % n)
            return
        seen[i] = len(seen)
        if isinstance(o, dict):
            for k in sorted(o):
                h.update(repr(k).encode())
                _walk_table(o[k], seen, h)
        else:
            h.update(b'L(' if isinstance(o, list) else b'T(')
            for x in o:
                _walk_table(x, seen, h)
            h.update(b')')
    else:
        h.update(repr(o).encode() if not isinstance(o, type) else o.__name__.encode())
        h.update(b',')


def globals_digest(ids=True, skip=(), deep_versions=()):
    """Digest of the process-global objects every call can reach (DESIGN §5)."""
    import sys
    import hl7apy
    import hl7apy.core as core
    h = hashlib.sha1()

    def put(*a):
        h.update(repr(a).encode())
    put('dv', hl7apy._DEFAULT_VERSION, hl7apy._DEFAULT_VALIDATION_LEVEL)
    put('ec', sorted(hl7apy._DEFAULT_ENCODING_CHARS.items()), sorted(hl7apy._DEFAULT_ENCODING_CHARS_27.items()))
    put('libs', sorted(hl7apy.SUPPORTED_LIBRARIES.items()))
    for name in sorted(hl7apy.SUPPORTED_LIBRARIES.values()):
        m = sys.modules.get(name)
        if m is not None and name not in skip:
            put(name, sorted((k, v.__module__ + '.' + v.__qualname__) for k, v in m.BASE_DATATYPES.items()))
            put(name, 'elements', sorted(m.ELEMENTS), [id(m.ELEMENTS[k]) for k in sorted(m.ELEMENTS)] if ids else None)
    # content of the structure tables of the versions this run works with (the tables hold mutable
    # lists: a call that edits a shared reference poisons every later call)
    for v in sorted(deep_versions):
        name = 'hl7apy.v' + v.replace('.', '_')
        m = sys.modules.get(name)
        if m is not None and name not in skip:
            seen = {}
            for k_ in sorted(m.ELEMENTS):
                _walk_table(m.ELEMENTS[k_], seen, h)
    for cls in (core.Element, core.SupportComplexDataType, core.SubComponent, core.Component, core.Field,
                core.Segment, core.Group, core.Message, core.ElementProxy):
        ca = getattr(cls, 'cls_attrs', None)
        put(cls.__name__, tuple(ca) if ca is not None else None)
        cc = cls.__dict__.get('child_classes')
        if cc is not None:
            put(cls.__name__, sorted((k, getattr(v, '__name__', None)) for k, v in cc.items()))
        put(cls.__name__, sorted(k for k in cls.__dict__ if not k.startswith('__')))
    return h.hexdigest()


class ThreadWorld:
    def __init__(self, case):
        self.case = case
        self.cfg = case['cfg']
        self.violations = []
        self.probes = {}
        self.results = {}
        self.expected = {}

    def probe(self, name, n=1):
        self.probes[name] = self.probes.get(name, 0) + n

    def violate(self, monitor, signature, detail, step=-1):
        self.violations.append({'monitor': monitor, 'signature': signature, 'step': step, 'detail': detail})

    def _actor(self, aid, prog):
        out = self.results[aid] = []
        for ci, c in enumerate(prog):
            self.k.record('call', aid, ci, c['kind'])
            r = corpus.run_call(c)
            out.append(r)
            self.k.record('ret', aid, ci, hashlib.sha1(repr(r).encode()).hexdigest()[:12])

    def _on_preempt(self, t):
        pos = t.last_pos[0] if t.last_pos else ''
        if pos == 'datatype_factory':
            self.probe('switch_in_datatype_factory')
        elif pos == 'load_library':
            self.probe('switch_in_load_library')
        for o in self.k.threads:
            if o is not t and o.state == K.RUNNABLE and o.last_pos and o.last_pos[0] == pos:
                self.probe('two_actors_in_same_function')
                break

    def run(self):
        case, cfg = self.case, self.cfg
        actors = case['actors']
        restore_defaults()
        cold_import = cfg.get('cold_import')
        if cold_import:
            # only ever inside the forked child of a cold run (props/c19.py)
            import os
            import hl7apy
            from simkit import importlock
            importlock.install()
            for v in cold_import:
                purge_version_modules(v)
        if cfg.get('defaults'):
            # the process is configured once, here in the main thread, before any worker thread exists
            import hl7apy
            hl7apy.set_default_version(cfg['defaults'][0])
            hl7apy.set_default_validation_level(cfg['defaults'][1])
        skip = ['hl7apy.v' + v.replace('.', '_') for v in (cold_import or ())]
        used = set()
        for prog in actors:
            for c in prog:
                if c.get('version'):
                    used.add(c['version'])
                elif c.get('kind') == 'parse_message':
                    try:
                        used.add(c['text'].split('\r', 1)[0].split(c['text'][3])[11])
                    except Exception:
                        pass
        used = {v for v in used if v in corpus.T.VERSIONS}
        g0 = globals_digest(ids=not cold_import, skip=skip, deep_versions=used)
        seed = case.get('seed', 0)
        threads_first = cfg.get('order') == 'threads_first'

        self.ref_lines = 0
        self.ref_lookup_lines = 0

        def reference_pass():
            # every call of every actor alone, in program order, same process
            for aid, prog in enumerate(actors):
                if aid == 0:
                    n = [0, 0]

                    def count(code, line):
                        n[0] += 1
                        if code in K._lookup_codes:
                            n[1] += 1
                    K.line_hook = count
                    try:
                        self.expected[aid] = [corpus.run_call(c) for c in prog]
                    finally:
                        K.line_hook = None
                    self.ref_lines = n[0]
                    self.ref_lookup_lines = n[1]
                    continue
                self.expected[aid] = [corpus.run_call(c) for c in prog]
            if globals_digest(ids=not cold_import, skip=skip, deep_versions=used) != g0:
                self.violate('C19.globals', 'process-global state changed by sequential calls', 'digest differs')

        if not threads_first:
            reference_pass()
        k = K.Kernel(schedule=case.get('schedule'), sched_rng=K.derive_rng(seed, 'schedule'),
                     mean_budget=cfg.get('mean_budget', 200), touch_p=cfg.get('touch_p', 0.0),
                     max_decisions=2_000_000, max_lines=30_000_000)
        self.k = k
        k.on_preempt = self._on_preempt
        k.deep_hold_at = frozenset(cfg.get('deep_hold_at', ())) if case.get('schedule') is None else ()
        if case.get('schedule') is None and cfg.get('sweep_at') is not None:
            k.sweep_at = cfg['sweep_at']
        if case.get('schedule') is None and cfg.get('sweep_frac') is not None and self.ref_lines:
            # position measured on the sequential reference pass of actor 0
            if cfg.get('sweep_kind') == 'lookup' and self.ref_lookup_lines:
                k.sweep_lookup_at = int(cfg['sweep_frac'] * self.ref_lookup_lines)
            else:
                k.sweep_thread_lines = max(1, int(cfg['sweep_frac'] * self.ref_lines))
        try:
            for aid, prog in enumerate(actors):
                k.spawn(self._actor, (aid, prog), label='actor%d' % aid)
            self.capped = k.run()
        finally:
            k.shutdown()
        g_after_threads = globals_digest(ids=not cold_import, skip=skip, deep_versions=used)
        if threads_first:
            # the concurrent phase met every lazily initialised path of the library cold; the
            # sequential reference comes afterwards
            reference_pass()
        if self.capped:
            self.violate('C19.progress', 'run hit cap %s' % self.capped, 'cap')
        if g_after_threads != g0:
            self.violate('C19.globals', 'process-global state changed by concurrent calls', 'digest differs')
        for aid, prog in enumerate(actors):
            got = self.results.get(aid, [])
            exp = self.expected[aid]
            t = k.threads[aid]
            if t.exc is not None:
                self.violate('C19.same_result', 'actor thread died with %s' % type(t.exc).__name__, repr(t.exc)[:300], aid)
            for ci, c in enumerate(prog):
                if ci >= len(got):
                    if t.exc is None and not self.capped:
                        self.violate('C19.same_result', 'call never returned', 'actor %d call %d' % (aid, ci), aid)
                    break
                if got[ci] != exp[ci]:
                    self.violate('C19.same_result',
                                 '%s returns something else under concurrency than when run alone' % c['kind'],
                                 'actor %d call %d: alone=%s concurrent=%s' % (aid, ci, _diff(exp[ci], got[ci])[0],
                                                                               _diff(exp[ci], got[ci])[1]), aid)
        vs = set()
        ls = set()
        for prog in actors:
            for c in prog:
                if 'version' in c:
                    vs.add(c['version'])
                ls.add(c.get('level'))
        if len(vs) > 1 and k.live_switches:
            self.probe('versions_overlap')
        if len(ls) > 1 and k.live_switches:
            self.probe('strict_and_tolerant_overlap')
        restore_defaults()
        return self


def _diff(a, b):
    sa, sb = repr(a), repr(b)
    i = 0
    n = min(len(sa), len(sb))
    while i < n and sa[i] == sb[i]:
        i += 1
    lo = max(0, i - 60)
    return sa[lo:i + 120], sb[lo:i + 120]


def execute(case):
    return ThreadWorld(case).run()
