"""MLLP world (property C16): the real hl7apy.mllp.MLLPServer + the real socketserver request
path + real socket.SocketIO/BufferedReader, on a simulated network, clock and scheduler.
"""
import sys
import hashlib
import socketserver
import datetime as _real_datetime

from simkit import kernel as K
from simkit import net as N
from simkit.util import Frozen, canon_exc
from models import mllp_model as M

US = 1_000_000
SBc, EBc, CRc = '\x0b', '\x1c', '\x0d'

_W = None      # the live world (handlers record into it)


# ------------------------------------------------------------------ handlers under test harness
def _simple_reply(kind, args, incoming):
    h = hashlib.sha1(incoming.encode('utf-8', 'surrogatepass')).hexdigest()
    pad = int(h[:3], 16) % 400
    body = 'MSH|^~\\&|SIM|%s|||20240101000000||ACK|%s|P|2.5\rMSA|AA|%s|%s\r' % (
        kind, h[:10], h[10:20], ('éx' * pad)[:pad])
    if args:
        body += 'NTE|1||%s\r' % '~'.join(str(a) for a in args)
    return SBc + body + EBc + CRc


def _working_reply(kind, args, incoming):
    """What examples/iti_21/server.py does: parse the request, build a response with the core API."""
    from hl7apy.parser import parse_message
    from hl7apy.core import Message
    try:
        m = parse_message(incoming, find_groups=False)
        ctrl = m.msh.msh_10.to_er7()
        ver = m.version
        res = Message('ACK', version=ver)
        res.msh.msh_3 = 'SIM'
        res.msh.msh_9 = 'ACK'
        res.msh.msh_10 = 'R' + ctrl[:15]
        res.msa.msa_1 = 'AA'
        res.msa.msa_2 = ctrl[:20]
        if args:
            res.msa.msa_3 = '-'.join(str(a) for a in args)
        return res.to_mllp()
    except Exception as e:      # a handler must not raise (that would legitimately invoke ERR too)
        return _simple_reply(kind, args, incoming + '!' + type(e).__name__)


def reply_for(kind, args, incoming, working):
    if working:
        return _working_reply(kind, args, incoming)
    return _simple_reply(kind, args, incoming)


def _make_handler_classes():
    from hl7apy.mllp import AbstractHandler, AbstractErrorHandler

    class RecHandler(AbstractHandler):
        KIND = 'H'

        def __init__(self, message, *args):
            super(RecHandler, self).__init__(message)
            self.args = args
            _W.on_construct(self, None)

        def reply(self):
            _W.on_reply(self)
            return reply_for(self.KIND, self.args, self.incoming_message, _W.cfg.get('working'))

    class H1(RecHandler):
        KIND = 'H1'

    class H2(RecHandler):
        KIND = 'H2'

    class H3(RecHandler):
        KIND = 'H3'

    class HE(AbstractErrorHandler):
        KIND = 'HE'

        def __init__(self, exc, message, *args):
            super(HE, self).__init__(exc, message)
            self.args = args
            _W.on_construct(self, exc)

        def reply(self):
            _W.on_reply(self)
            return reply_for('HE:' + type(self.exc).__name__, self.args, self.incoming_message, False)

    return {'H1': H1, 'H2': H2, 'H3': H3, 'HE': HE}


_HANDLER_CLASSES = None


def handler_classes():
    global _HANDLER_CLASSES
    if _HANDLER_CLASSES is None:
        _HANDLER_CLASSES = _make_handler_classes()
        codes = set()
        for f in (_make_handler_classes,):
            K._walk_code(f.__code__, codes)
        codes.discard(_make_handler_classes.__code__)
        K.instrument(codes)
        K.instrument({_simple_reply.__code__, _working_reply.__code__, reply_for.__code__})
    return _HANDLER_CLASSES


# ------------------------------------------------------------------ the world
class MLLPWorld:
    def __init__(self, case, seed_for_schedule=None):
        self.case = case
        self.cfg = case['cfg']
        self.clients = case['clients']
        self.violations = []
        self.constructs = []     # (cid, kind, args, incoming, exc_name, exc_msg_type)
        self.replies = []        # (cid, kind)
        self.errors = []         # handle_error records (cid, exc class name)
        self.probes = {}
        self.first_recv = {}     # cid -> bytes returned by the first raw recv
        self.last_client_event = {}
        self.expected = {}
        self.seed = seed_for_schedule

    def probe(self, name, n=1):
        self.probes[name] = self.probes.get(name, 0) + n

    def violate(self, monitor, signature, detail, cid=None):
        self.violations.append({'monitor': monitor, 'signature': signature,
                                'step': cid if cid is not None else -1, 'detail': detail})

    # ---- handler callbacks (run inside handler threads) ----
    def _cid_of_current(self):
        t = K.current_thread()
        return getattr(getattr(t, 'conn', None), 'cid', None) if t is not None else None

    def on_construct(self, h, exc):
        cid = self._cid_of_current()
        rec = (cid, h.KIND, tuple(h.args), h.incoming_message,
               type(exc).__name__ if exc is not None else None,
               getattr(exc, 'msg_type', None) if exc is not None else None)
        self.constructs.append(rec)
        self.k.record('h.new', cid, h.KIND, len(h.incoming_message))
        n = sum(1 for c in self.constructs if c[0] == cid)
        if n > 1:
            self.violate('C16.one_handler', 'handler constructed %d times' % n,
                         'connection %r: %r' % (cid, [c[1] for c in self.constructs if c[0] == cid]), cid)
        # other handler threads between "frame complete" and "reply written"?
        live = [t for t in self.k.threads if t is not K.current_thread() and
                t.state in (K.RUNNABLE, K.BLOCKED) and getattr(t, 'in_route', False)]
        if live:
            self.probe('two_handlers_in_flight')
        t = K.current_thread()
        if t is not None:
            t.in_route = True

    def on_reply(self, h):
        cid = self._cid_of_current()
        self.replies.append((cid, h.KIND))
        self.k.record('h.reply', cid, h.KIND)
        n = sum(1 for c in self.replies if c[0] == cid)
        if n > 1:
            self.violate('C16.one_handler', 'reply() called %d times' % n, 'connection %r' % cid, cid)

    # ---- running ----
    def run(self):
        global _W
        case = self.case
        cfg = self.cfg
        sched = case.get('schedule')
        seed = self.seed if self.seed is not None else case.get('seed', 0)
        rng = K.derive_rng(seed, 'schedule')
        k = K.Kernel(schedule=sched, sched_rng=rng, mean_budget=cfg.get('mean_budget', 200),
                     touch_p=cfg.get('touch_p', 0.0), max_decisions=cfg.get('max_decisions', 400000), max_lines=cfg.get('max_lines', 2_000_000))
        self.k = k
        k.stall_p = cfg.get('stall_p', 0.0) if sched is None else 0.0
        k.stall_rng = K.derive_rng(seed, 'stall')
        # stalls are recorded as part of the schedule so that a replay reproduces them
        net = N.SimNet(k, cfg, fault_rng=K.derive_rng(seed, 'faults'))
        self.net = net
        net.plan = case.get('fault_plan')
        net.raw_recv_hook = self._on_raw_recv
        _W = self
        import hl7apy.core as core
        from hl7apy.mllp import MLLPServer
        hc = handler_classes()
        handlers = {}
        for key, (cls, args) in cfg['handlers'].items():
            handlers[key] = (hc[cls],) + tuple(args)
        old = (socketserver.socket, socketserver.threading)
        socketserver.socket = net.socket_module()
        socketserver.threading = net.threading_module()
        server = None
        try:
            server = MLLPServer('sim', 2575, handlers, timeout=cfg['timeout_s'])
            self.server = server

            def handle_error(request, client_address):
                et, ev, tb = sys.exc_info()
                cid = request._conn.cid if hasattr(request, '_conn') else None
                self.errors.append((cid, et.__name__ if et else None))
                k.record('s.error', cid, et.__name__ if et else None)
            server.handle_error = handle_error
            # expected outcomes need the replies the handlers would give: computed here,
            # sequentially, before any thread exists
            for cl in self.clients:
                self.expected[cl['cid']] = self._expect(cl, 0)
            for cl in self.clients:
                self._schedule_client(cl)
            k.on_step = self._online_invariants
            capped = k.run()
            self.capped = capped
            self._final_checks()
        finally:
            try:
                k.shutdown()
            finally:
                socketserver.socket, socketserver.threading = old
                _W = None
                if server is not None:
                    try:
                        server.socket.close()
                    except Exception:
                        pass
        return self

    def _expect(self, cl, stall_us):
        e = M.classify(cl, self.cfg, stall_us)
        if e['handler'] is not None:
            cls, args = self.cfg['handlers'][e['handler']]
            e['kind'] = cls
            e['args'] = tuple(args)
            if cls == 'HE':
                e['reply'] = reply_for('HE:' + e['exc'], tuple(args), e['payload'], False)
            else:
                e['reply'] = reply_for(cls, tuple(args), e['payload'], self.cfg.get('working'))
        return e

    def _schedule_client(self, cl):
        k, net = self.k, self.net
        conn = net.new_conn()
        assert conn.cid == cl['cid']
        cid = cl['cid']
        reader = cl.get('reader', 'auto')
        conn.auto_read = reader == 'auto'
        conn.s2c_cap = cl.get('s2c_cap')

        def touch():
            self.last_client_event[cid] = k.now

        def connect():
            touch()
            net.connect(conn)
            self.server._handle_request_noblock()
        k.at(cl['connect_at'], connect, 'connect%d' % cid)
        t = cl['connect_at']
        for delay, hx in cl['chunks']:
            t += delay
            data = bytes.fromhex(hx)
            k.at(t, (lambda d=data: (touch(), conn.client_send(d))), 'send%d' % cid)
        end = cl.get('end', 'none')
        t_end = t + cl.get('end_delay', 0)
        if end == 'half':
            k.at(t_end, lambda: (touch(), conn.client_half_close()), 'half%d' % cid)
        elif end == 'close':
            k.at(t_end, lambda: (touch(), conn.client_close()), 'close%d' % cid)
        elif end == 'reset':
            k.at(t_end, lambda: (touch(), conn.client_abort()), 'reset%d' % cid)
        if reader == 'slow':
            nbytes, period, count = cl['slow']
            # the slow reader starts when the chunk that completes the frame is sent (the reply
            # cannot exist earlier), so the server's sends really do meet a full buffer
            data = b''.join(bytes.fromhex(h) for _, h in cl['chunks'])
            need = M.frame_end_index(data)
            if need is not None:
                off, t = 0, cl['connect_at']
                for delay, hx in cl['chunks']:
                    t += delay
                    off += len(hx) // 2
                    if off > need:
                        break
            for i in range(count):
                k.at(t + (i + 1) * period, (lambda n=nbytes: (touch(), conn.client_read(n))), 'read%d' % cid)
            # finally drain everything
            k.at(t + (count + 1) * period, lambda: (touch(), setattr(conn, 'auto_read', True),
                                                  conn.client_read()), 'drain%d' % cid)

    def _on_raw_recv(self, conn, n, data):
        if conn.cid not in self.first_recv:
            self.first_recv[conn.cid] = data
            self.probe('first_recv_%d' % len(data))
            if len(data) == 3 and data[-2:] == b'\x1c\x0d':
                self.probe('frame_complete_in_first_recv')

    # ---- invariants while running ----
    def _online_invariants(self):
        for conn in self.net.conns:
            e = self.expected.get(conn.cid)
            got = bytes(conn.client_got) + bytes(conn.s2c)
            if not got:
                continue
            if e is None or e.get('reply') is None:
                continue      # (whether silence is required depends on stalls: decided at the end)
            exp = e['reply'].encode('utf-8')
            if not exp.startswith(got) and not getattr(conn, '_flag_prefix', False):
                conn._flag_prefix = True
                # whose bytes are they?
                other = [c for c, x in self.expected.items()
                         if c != conn.cid and x.get('reply') and x['reply'].encode('utf-8').startswith(got[:32])]
                sig = 'reply of another connection delivered' if other else 'bytes are not a prefix of the expected reply'
                self.violate('C16.reply_prefix', sig, 'cid %d got %r expected %r' % (conn.cid, got[:60], exp[:60]),
                             conn.cid)

    # ---- checks on the recorded history ----
    def _final_checks(self):
        k = self.k
        T = int(self.cfg['timeout_s'] * US)
        if self.capped:
            self.violate('C16.liveness', 'run hit cap %s' % self.capped, 'cap')
        for t in k.blocked_threads():
            cid = getattr(getattr(t, 'conn', None), 'cid', None)
            self.violate('C16.liveness', 'handler thread blocked forever in %s' % t.block_what,
                         'cid %r never finishes' % cid, cid)
        for cl in self.clients:
            cid = cl['cid']
            conn = self.net.conns[cid]
            th = conn.thread
            stall = th.stall_us if th is not None else 0
            e = self._expect(cl, stall) if stall else self.expected[cid]
            self.final_expected = getattr(self, 'final_expected', {})
            self.final_expected[cid] = e
            cons = [c for c in self.constructs if c[0] == cid]
            reps = [r for r in self.replies if r[0] == cid]
            got = bytes(conn.client_got)
            # cross-talk / attribution: the handler must have run on this connection's thread
            # with this connection's payload
            for c in cons:
                if e['cls'] in (M.SERVED, M.EITHER) and e.get('payload') is not None and c[3] != e['payload']:
                    self.violate('C16.payload', 'handler got a payload that is not the framed text',
                                 'cid %d handler saw %r framed %r' % (cid, c[3][:80], e['payload'][:80]), cid)
            # every connection is closed exactly once, and its thread ends
            if conn.server_sock is not None:
                if conn.server_closed != 1:
                    self.violate('C16.closed', 'connection closed %d times' % conn.server_closed,
                                 'cid %d' % cid, cid)
                if th is not None and th.state != K.DONE and not any(x is th for x in k.blocked_threads()):
                    self.violate('C16.liveness', 'handler thread not finished', 'cid %d state %s' % (cid, th.state), cid)
                # bounded liveness: closed within T (+stall) of the last client event
                closes = [ev[0] for ev in conn.events if ev[1] == 'close']
                if closes:
                    last_ev = self.last_client_event.get(cid, cl['connect_at'])
                    if closes[-1] > last_ev + T + stall + 1:
                        self.violate('C16.liveness', 'closed later than last client event + timeout',
                                     'cid %d closed at %d, last client event %d' % (cid, closes[-1], last_ev), cid)
            if e['cls'] == M.SERVED:
                self.probe('served')
                if len(cons) != 1:
                    self.violate('C16.one_handler', 'served connection saw %d handler constructions' % len(cons),
                                 'cid %d expected %s' % (cid, e['kind']), cid)
                else:
                    c = cons[0]
                    if c[1] != e['kind']:
                        self.violate('C16.routing', 'wrong handler class: %s instead of %s' % (c[1], e['kind']),
                                     'cid %d msh9 %r' % (cid, e['msh9']), cid)
                    elif c[2] != e['args']:
                        self.violate('C16.routing', 'wrong handler args', 'cid %d %r vs %r' % (cid, c[2], e['args']), cid)
                    elif e['exc'] is not None:
                        if c[4] != e['exc']:
                            self.violate('C16.routing', 'ERR handler got %s instead of %s' % (c[4], e['exc']),
                                         'cid %d' % cid, cid)
                        elif e['exc'] == 'UnsupportedMessageType' and c[5] != e['msh9']:
                            self.violate('C16.routing', 'UnsupportedMessageType carries the wrong type',
                                         'cid %d %r vs %r' % (cid, c[5], e['msh9']), cid)
                    if e['exc'] == 'InvalidHL7Message':
                        self.probe('err_invalid')
                    elif e['exc'] == 'UnsupportedMessageType':
                        self.probe('err_unsupported')
                    else:
                        self.probe('routed_normal')
                if len(reps) != 1:
                    self.violate('C16.one_handler', 'served connection saw %d reply() calls' % len(reps),
                                 'cid %d' % cid, cid)
                exp = e['reply'].encode('utf-8')
                if e['reads_reply']:
                    if got != exp:
                        self.violate('C16.reply', 'client did not receive exactly the handler reply',
                                     'cid %d got %d bytes %r expected %d bytes %r' % (
                                         cid, len(got), got[:50], len(exp), exp[:50]), cid)
                    elif not conn.client_saw_eof:
                        self.violate('C16.closed', 'client got the reply but never EOF', 'cid %d' % cid, cid)
                    else:
                        self.probe('reply_delivered')
                else:
                    self.probe('client_gone_before_reply')
                    if not exp.startswith(got):
                        self.violate('C16.reply_prefix', 'bytes are not a prefix of the expected reply',
                                     'cid %d' % cid, cid)
            elif e['cls'] == M.DROPPED:
                self.probe('dropped')
                if cons or reps:
                    self.violate('C16.dropped_silent', 'handler invoked for input that must be dropped (%s)' % e['why'],
                                 'cid %d handlers %r' % (cid, [c[1] for c in cons]), cid)
                if got or conn.s2c:
                    self.violate('C16.dropped_silent', 'bytes sent to a connection that must get none',
                                 'cid %d got %r' % (cid, (got + bytes(conn.s2c))[:40]), cid)
            else:
                self.probe('either_or_unspec')
                if len(cons) > 1 or len(reps) > 1:
                    self.violate('C16.one_handler', 'more than one handler invocation', 'cid %d' % cid, cid)
                if e.get('reply') is not None:
                    if not e['reply'].encode('utf-8').startswith(got):
                        self.violate('C16.reply_prefix', 'bytes are not a prefix of the expected reply', 'cid %d' % cid, cid)
        # handler invocations that belong to no connection
        for c in self.constructs:
            if c[0] is None or c[0] >= len(self.clients):
                self.violate('C16.one_handler', 'handler constructed outside a connection thread', repr(c[:3]))


def execute(case, seed=None):
    w = MLLPWorld(case, seed)
    w.run()
    return w
