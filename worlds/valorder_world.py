"""C04, order-independence: the validation report of an element must not depend on what was
validated earlier in the process (validate() is a pure observation).  The same items -- messages
validated against the standard tables or against the shipped ITI-21 message profile -- are
validated in two different orders, each order in a fresh fork of a process that has never called
the library (cold caches), and the per-item reports are compared."""
import os

from simkit import coldrun
from simkit.util import canon_exc, canon_text

PROFILE = os.path.join('/repo', 'tests', 'profiles', 'iti_21')

RSP_K21 = ('MSH|^~\\&|SENDING APP|SENDING FAC|RECEIVING APP|RECEIVING FAC|20140410170011||RSP^K22^RSP_K21|%s|P|2.5\r'
           'MSA|AA|20140410170015\r'
           'QAK|222222222|OK\r'
           'QPD|IHE PDQ Query|222222222|@PID.3.1.1^3333333|||||^^^IHEFACILITY&1.3.6.1.4.1.21367.3000.1.6&ISO^|\r'
           'PID|1||10101109091948^^^GATEWAY&1.3.6.1.4.1.21367.2011.2.5.17&ISO||JOHN^SMITH^^^^^A||19690113|M|||VIA DELLE VIE^^CAGLIARI^^^ITA^H^^092009||||||||||||CAGLIARI|||\r')


ZDTS = ['CX', 'XPN', 'CE', 'HD', 'XAD', 'XTN', 'EI', 'PL', 'CWE', 'XCN']


def make_zfield_item(rng, i):
    """a Z segment with one field of a complex datatype, in a random version: the datatype structures
    (required components, counts) differ between versions"""
    from models import tables as T
    version = rng.choice(T.VERSIONS)
    dts = [d for d in ZDTS if T.datatype_struct(version, d)]
    dt = rng.choice(dts)
    n = len(T.datatype_struct(version, dt))
    parts = []
    for j in range(min(n, rng.choice([1, 2, 3, 5]))):
        parts.append('z%d%d' % (i, j) if rng.random() < 0.6 else '')
    if not any(parts):
        parts[-1] = 'z%d' % i
    return {'kind': 'zfield', 'version': version, 'dt': dt, 'text': '^'.join(parts), 'ref': 'zfield', 'edits': [dt, version]}


def make_zmulti_item(rng, i):
    """a Z segment with two to four Z fields of *different* complex datatypes: it must be judged exactly
    as its fields are judged alone (each is validated against the structure of its own datatype)"""
    from models import tables as T
    version = rng.choice(T.VERSIONS)
    dts = [d for d in ZDTS if T.datatype_struct(version, d)]
    rng.shuffle(dts)
    fields = []
    for k, dt in enumerate(dts[:rng.choice([2, 3, 4])]):
        n = len(T.datatype_struct(version, dt))
        parts = ['z%d%d%d' % (i, k, j) if rng.random() < 0.6 else '' for j in range(min(n, rng.choice([1, 2, 3, 5])))]
        if not any(parts):
            parts[-1] = 'z%d%d' % (i, k)
        fields.append([dt, '^'.join(parts)])
    return {'kind': 'zmulti', 'version': version, 'fields': fields, 'ref': 'zmulti', 'edits': [f[0] for f in fields] + [version]}


def make_item(rng, i, force=None):
    r = rng.random()
    if r < 0.12 and force is None:
        return make_zmulti_item(rng, i)
    if r < 0.35 and force is None:
        return make_zfield_item(rng, i)
    lines = (RSP_K21 % ('c%d' % i)).rstrip('\r').split('\r')
    edits = []
    for k_ in range(rng.choice([0, 0, 1, 1, 2]) if force is None else rng.choice([1, 2])):
        e = rng.choice(['drop', 'dsc', 'dup', 'extra_field', 'sft', 'err', 'drop_field', 'zseg'])
        if force is not None and k_ == 0:
            e = force
        edits.append(e)
        if e == 'drop' and len(lines) > 2:
            del lines[rng.randrange(1, len(lines))]
        elif e == 'dsc':
            lines.append('DSC|cont%d|I' % i)
        elif e == 'dup':
            j = rng.randrange(1, len(lines))
            lines.insert(j, lines[j])
        elif e == 'extra_field':
            j = rng.randrange(1, len(lines))
            lines[j] = lines[j].rstrip('|') + '|||||||x%d' % i
        elif e == 'sft':
            lines.insert(1, 'SFT|vendor%d|1.0|prod|bin' % i)
        elif e == 'err':
            lines.insert(2, 'ERR||PID^1^5|101|E')
        elif e == 'drop_field':
            j = rng.randrange(1, len(lines))
            parts = lines[j].split('|')
            if len(parts) > 2:
                parts[rng.randrange(1, len(parts))] = ''
                lines[j] = '|'.join(parts)
        elif e == 'zseg':
            lines.append('ZZ1|z%d' % i)
    return {'text': '\r'.join(lines) + '\r', 'ref': rng.choice(['std', 'mp', 'mp', 'std_nogroups']), 'edits': edits}


def _reports(arg):
    items, order = arg
    import hl7apy
    from hl7apy.parser import parse_message
    mp = hl7apy.load_message_profile(PROFILE)
    out = {}
    for idx in order:
        it = items[idx]
        try:
            if it.get('kind') == 'zfield':
                from hl7apy.core import Segment, Field
                seg = Segment('ZIN', version=it['version'], validation_level=2)
                fld = Field('ZIN_1', datatype=it['dt'], version=it['version'], validation_level=2)
                fld.value = it['text']
                seg.add(fld)
                r = seg.validate(return_errors=True)
                out[idx] = [bool(r.is_valid), sorted(canon_text(str(x)) for x in r.errors),
                            sorted(canon_text(str(x)) for x in r.warnings)]
                continue
            if it.get('kind') == 'zmulti':
                from hl7apy.core import Segment, Field

                def zseg(which):
                    seg = Segment('ZIN', version=it['version'], validation_level=2)
                    for k, (dt, text) in enumerate(it['fields']):
                        if which is None or which == k:
                            fld = Field('ZIN_%d' % (k + 1), datatype=dt, version=it['version'], validation_level=2)
                            fld.value = text
                            seg.add(fld)
                    r = seg.validate(return_errors=True)
                    return [canon_text(str(x)) for x in r.errors], [canon_text(str(x)) for x in r.warnings], bool(r.is_valid)
                whole = zseg(None)
                alone = [zseg(k) for k in range(len(it['fields']))]
                out[idx] = [whole[2], sorted(whole[0]), sorted(whole[1]),
                            sorted(sum((a[0] for a in alone), [])), sorted(sum((a[1] for a in alone), []))]
                continue
            if it['ref'] == 'mp':
                m = parse_message(it['text'], message_profile=mp)
            elif it['ref'] == 'std_nogroups':
                m = parse_message(it['text'], find_groups=False)
            else:
                m = parse_message(it['text'])
            r = m.validate(return_errors=True)
            out[idx] = [bool(r.is_valid), sorted(canon_text(str(x)) for x in r.errors),
                        sorted(canon_text(str(x)) for x in r.warnings)]
        except Exception as ex:      # noqa
            out[idx] = 'EXC ' + canon_exc(ex)
    return out


def execute(case):
    items = case['items']
    res = []
    for order in case['orders']:
        res.append(coldrun.run_in_fork(_reports, (items, order)))
    violations = []
    for idx in range(len(items)):
        a, b = res[0].get(idx), res[1].get(idx)
        if a != b:
            violations.append({'monitor': 'C04.deterministic',
                               'signature': 'the validation report of an element depends on what was validated before it',
                               'step': idx,
                               'detail': 'item %d (%s, edits %r): order %r -> %r ; order %r -> %r' % (
                                   idx, items[idx]['ref'], items[idx]['edits'], case['orders'][0], a, case['orders'][1], b)})
            break
    for idx, it in enumerate(items):
        a = res[0].get(idx)
        if it.get('kind') == 'zmulti' and isinstance(a, list) and (a[1] != a[3] or a[2] != a[4]):
            violations.append({'monitor': 'C04.verdict',
                               'signature': 'a Z segment holding several complex Z fields is judged differently from its fields alone',
                               'step': idx, 'detail': 'version %s fields %r: together %r / %r, alone %r / %r' % (
                                   it['version'], it['fields'], a[1][:4], a[2][:4], a[3][:4], a[4][:4])})
            break
    return res, violations
