"""Defaults world (C17): one worker running corpus calls that carry explicit version / level /
delimiters, while a configurator's hl7apy.set_default_* calls land at seeded instants:
between calls, between two operations on a living element, and mid-call -- immediately before
the j-th consultation of a default (PY_START of get_default_*) or at the n-th instrumented
source line.  The flip happens inside the monitoring callback, i.e. exactly where another
thread's call would land under a line-granular interleaving.
"""
import hashlib

from simkit import kernel as K
from models import corpus, tables as T
from worlds.thread_world import restore_defaults, shipped_defaults

# default delimiter sets the configurator may install.  Index 4 uses characters that DO occur in
# generated values (".", digits): it is only drawn for calls whose every parse is rooted in a message
# or in explicit encoding_chars (a parent-less element legitimately parses with the defaults).
EC_SETS = list(corpus.ECS) + [{'FIELD': '|', 'COMPONENT': '.', 'SUBCOMPONENT': '0', 'REPETITION': '2', 'ESCAPE': '\\',
                               'SEGMENT': '\r', 'GROUP': '\r'}]


def apply_flip(f):
    """f = [version or None, level or None, ec index or None]"""
    import hl7apy
    if f[0] is not None:
        hl7apy.set_default_version(f[0])
    if f[1] is not None:
        hl7apy.set_default_validation_level(f[1])
    if f[2] is not None:
        d = {k: v for k, v in EC_SETS[f[2]].items() if k not in ('SEGMENT', 'GROUP')}
        hl7apy.set_default_encoding_chars(d)


def _consult_codes():
    import hl7apy
    return {hl7apy.get_default_version.__code__: 'version',
            hl7apy.get_default_validation_level.__code__: 'level',
            hl7apy.get_default_encoding_chars.__code__: 'ec'}


class DefaultsWorld:
    def __init__(self, case):
        self.case = case
        self.violations = []
        self.probes = {}
        self.log = []
        self.lines = 0
        self.flips_done = 0

    def probe(self, name, n=1):
        self.probes[name] = self.probes.get(name, 0) + n

    def violate(self, monitor, signature, detail, step=-1):
        self.violations.append({'monitor': monitor, 'signature': signature, 'step': step, 'detail': detail})

    # ---- one pass over one call ----
    def _pass(self, call, plan, record_alive=None, check_alive=None):
        """Run `call` once.  plan: {'before': flip or None, 'alive': {k: flip}, 'consult': {j: flip},
        'line': {n: flip}}.  Returns (outcome, stats)."""
        codes = _consult_codes()
        st = {'consults': 0, 'lines': 0, 'alive': 0, 'which': []}
        consult = plan.get('consult') or {}
        line = plan.get('line') or {}
        alive = plan.get('alive') or {}

        def on_start(code):
            which = codes.get(code)
            if which is None:
                return
            j = st['consults']
            st['consults'] = j + 1
            st['which'].append(which)
            f = consult.get(j)
            if f is not None:
                apply_flip(f)
                self.flips_done += 1
                self.probe('flip_before_consult_' + which)

        def on_line(code, ln):
            n = st['lines']
            st['lines'] = n + 1
            f = line.get(n)
            if f is not None:
                apply_flip(f)
                self.flips_done += 1
                self.probe('flip_at_line')

        def hook(stage, elem):
            k = st['alive']
            st['alive'] = k + 1
            is_msg = elem.classname == 'Message'
            ec = None if is_msg else corpus._ec(call.get('ec', 0))
            then = ['er7', 'er7_trailing', 'names'] + (['validate'] if is_msg else [])
            f = alive.get(k)
            # observation hooks must not be perturbed by line/consult flips: they are the observer
            saved = (K.line_hook, K.start_hook)
            K.line_hook = None
            K.start_hook = None
            try:
                before = corpus._observe(elem, then, ec)
                if f is not None:
                    apply_flip(f)
                    self.flips_done += 1
                    self.probe('flip_while_element_alive')
                    after = corpus._observe(elem, then, ec)
                    if after != before:
                        self.violate('C17.existing_elements',
                                     '%s: an existing %s changed when the defaults changed' % (call['kind'], elem.classname),
                                     'flip %r: %s' % (f, _diff(before, after)), k)
                if record_alive is not None:
                    record_alive.append(before)
                if check_alive is not None and k < len(check_alive) and before != check_alive[k] and \
                        not getattr(self, '_alive_flagged', False):
                    self._alive_flagged = True
                    self.alive_mismatch = (k, _diff(check_alive[k], before))
            finally:
                K.line_hook, K.start_hook = saved

        if plan.get('before') is not None:
            apply_flip(plan['before'])
            self.flips_done += 1
            self.probe('flip_between_calls')
        K.start_hook = on_start
        K.line_hook = on_line if line else _count_lines(st)
        try:
            out = corpus.run_call(call, hook=hook)
        finally:
            K.start_hook = None
            K.line_hook = None
        self.lines += st['lines']
        return out, st

    def run(self):
        case = self.case
        for ci, item in enumerate(case['calls']):
            call, plan = item['call'], item['plan']
            restore_defaults()
            ref_alive = []
            ref, st0 = self._pass(call, {}, record_alive=ref_alive)
            self.log.append(('ref', ci, _h(ref), st0['consults'], st0['lines']))
            if st0['consults']:
                self.probe('call_consults_a_default')
            else:
                self.probe('call_never_consults_a_default')
            # resolve relative positions of the plan against what the reference pass measured
            rplan = _resolve(plan, st0)
            restore_defaults()
            self._alive_flagged = False
            self.alive_mismatch = None
            got, st1 = self._pass(call, rplan, check_alive=ref_alive)
            self.log.append(('perturbed', ci, _h(got), st1['consults'], st1['lines'], repr(sorted(rplan.items()))))
            restore_defaults()
            if got != ref:
                which, mode = self._classify(call, rplan, ref)
                self.violate('C17.explicit_args',
                             '%s: result depends on the default %s (%s)' % (call['kind'], which, mode),
                             'plan %r: %s' % (plan, _diff(ref, got)), ci)
            elif self.alive_mismatch is not None:
                which, mode = self._classify(call, rplan, ref)
                self.violate('C17.explicit_args',
                             '%s: intermediate state depends on the default %s (%s)' % (call['kind'], which, mode),
                             'at alive point %d: %s' % self.alive_mismatch, ci)
        restore_defaults()
        return self

    def _classify(self, call, rplan, ref):
        """Which default alone, as a constant setting, reproduces the discrepancy?"""
        flips = [rplan.get('before')] + list((rplan.get('alive') or {}).values()) + \
            list((rplan.get('consult') or {}).values()) + list((rplan.get('line') or {}).values())
        flips = [f for f in flips if f is not None]
        hit = []
        for idx, name in enumerate(('version', 'level', 'encoding chars')):
            for f in flips:
                if f[idx] is None:
                    continue
                one = [None, None, None]
                one[idx] = f[idx]
                restore_defaults()
                apply_flip(one)
                K.start_hook = None
                K.line_hook = None
                out = corpus.run_call(call)
                restore_defaults()
                if out != ref:
                    hit.append(name)
                    break
        if hit:
            return '+'.join(hit), 'constant setting'
        return 'settings', 'only when changed mid-call'


def _count_lines(st):
    def f(code, ln):
        st['lines'] += 1
    return f


def _resolve(plan, st0):
    """Plan positions are fractions (0..1) of what the reference pass measured -> absolute."""
    out = {'before': plan.get('before'), 'alive': {}, 'consult': {}, 'line': {}}
    for k, f in (plan.get('alive') or {}).items():
        out['alive'][int(k)] = f
    nc = st0['consults']
    for frac, f in (plan.get('consult') or {}).items():
        if nc:
            out['consult'][min(nc - 1, int(float(frac) * nc))] = f
    nl = st0['lines']
    for frac, f in (plan.get('line') or {}).items():
        if nl:
            out['line'][min(nl - 1, int(float(frac) * nl))] = f
    return out


def _h(x):
    return hashlib.sha1(repr(x).encode()).hexdigest()[:12]


def _diff(a, b):
    sa, sb = repr(a), repr(b)
    i = 0
    n = min(len(sa), len(sb))
    while i < n and sa[i] == sb[i]:
        i += 1
    lo = max(0, i - 50)
    return 'reference ...%s | perturbed ...%s' % (sa[lo:i + 100], sb[lo:i + 100])


def execute(case):
    return DefaultsWorld(case).run()
