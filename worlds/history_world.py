"""History world (C09, C10, C11, C12, C05, C04): one actor drives hl7apy's element API through a
long-lived history of operations -- including operations the library rejects half-way and
report-file faults -- while a reference model is stepped in lock-step and invariants are
evaluated after every operation (DESIGN §7).  No clock, no scheduler: the "fault" is the
library's own rejection (or an I/O error of the simulated report file) at an arbitrary point of a
history that has built up state.
"""
import hashlib

from models import elem_model as EM
from models import tables as T
from models import gen
from models import corpus
from worlds import hist_names as HN
from simkit.util import canon_exc, canon_text
from simkit import simfs

KIND_OF_CLASS = {'Message': 'msg', 'Group': 'grp', 'Segment': 'seg', 'Field': 'fld', 'Component': 'cmp',
                 'SubComponent': 'sub'}


class NavError(Exception):
    pass


def _ec_for(init):
    return corpus._ec(init.get('ec', 0))


# ------------------------------------------------------------------ one system under test
class Sut:
    """The real elements of one configuration (one validation level) plus its reference model."""

    def __init__(self, world, level, tag):
        self.w = world
        self.level = level
        self.tag = tag
        self.roots = []        # real elements
        self.models = []       # EM.Node per root (None = model lost for that root)
        self.meta = []         # {'kind','name','version','ec'}
        self.alive = True      # twin mode: False once this twin rejected an op the other accepted
        self.last_exc = None
        self.held = {}         # handles kept by the program across operations (op 'hold')
        self.held_nodes = {}   # the model nodes of elements grabbed by op 'grab'

    # ---- construction ----
    def make_root(self, spec):
        from hl7apy import core, parser
        kind, name, version = spec['kind'], spec['name'], spec['version']
        level = spec.get('level') or self.level
        ec = corpus._ec(spec.get('ec', 0))
        text = spec.get('text')
        if kind == 'msg':
            if spec.get('profile'):
                import hl7apy
                from worlds import valorder_world as VO
                mp = hl7apy.load_message_profile(VO.PROFILE)
                e = parser.parse_message(text, validation_level=level, message_profile=mp,
                                         find_groups=spec.get('find_groups', True))
            elif text is not None:
                e = parser.parse_message(text, validation_level=level, find_groups=False)
            else:
                e = core.Message(name, version=version, validation_level=level, encoding_chars=ec)
        elif kind == 'seg':
            if text is not None:
                e = parser.parse_segment(text, version=version, encoding_chars=corpus._ec(0), validation_level=level)
            else:
                e = core.Segment(name, version=version, validation_level=level)
            ec = corpus._ec(0)
        elif kind == 'fld':
            if text is not None:
                e = parser.parse_field(text, name=name, version=version, encoding_chars=corpus._ec(0),
                                       validation_level=level)
            else:
                e = core.Field(name, version=version, validation_level=level)
            ec = corpus._ec(0)
        elif kind == 'grp':
            e = core.Group(name, version=version, validation_level=level)
        else:
            raise ValueError(kind)
        self.roots.append(e)
        meta = {'kind': kind, 'name': name, 'version': version, 'ec': ec, 'level': level, 'profile': bool(spec.get('profile'))}
        self.meta.append(meta)
        self.models.append(self._model_of(e, meta))
        return e

    def _model_of(self, e, meta):
        """Initial model = the element's own initial encoding, parsed by the model's parser."""
        kind = meta['kind']
        if meta.get('profile'):
            return None      # the reference model knows the standard tables only
        try:
            text = e.to_er7()
        except Exception:
            return None
        if kind == 'msg':
            # children in *list* order (under STRICT the encoding is in structure order instead)
            n = EM.Node('msg', meta['name'])
            for c in e.children.list:
                if c.classname != 'Segment':
                    return None
                n.kids.append(EM.seg_from_text(c.to_er7(), meta['ec']))
            return n
        if kind == 'grp':
            n = EM.Node('grp', meta['name'])
            n.kids = EM.segs_from_text(text, meta['ec'])
            return n
        if kind == 'seg':
            if not text:
                return EM.Node('seg', meta['name'])
            n = EM.seg_from_text(text, meta['ec'])
            if not n.key:
                n.key = meta['name']
            return n
        if kind == 'fld':
            idx = int(meta['name'].rsplit('_', 1)[1])
            return EM.field_from_text(idx, text, meta['ec'])
        return None

    # ---- navigation on the real API ----
    def ctx_path(self, ri, path):
        meta = self.meta[ri]
        ctx = HN.root_ctx(meta['version'], meta['kind'], meta['name'])
        out = [ctx]
        for t, key, r, sp in path:
            ctx = HN.step_ctx(ctx, t, key)
            out.append(ctx)
        return out

    def nav(self, ri, path, px=False):
        """-> Element or ElementProxy reached by attribute reads along `path`.  px: the first repetition
        of an existing child is addressed the way most callers do it, through the proxy itself
        (s.pid_3.cx_1 = v) instead of by index (s.pid_3[0].cx_1 = v); both spell the same element."""
        cur = self.roots[ri]
        ctxs = self.ctx_path(ri, path)
        for i, (t, key, r, sp) in enumerate(path):
            attr = HN.spell(ctxs[i], ctxs[i + 1], t, key, sp)
            proxy = getattr(cur, attr)
            if proxy is None:
                raise NavError('no child %s' % attr)
            n = len(proxy)
            if r < n:
                cur = proxy if (px and r == 0) else proxy[r]
            elif n == 0 and r == 0:
                cur = proxy
            else:
                raise NavError('repetition %d of %s does not exist' % (r, attr))
        return cur

    def attr_of(self, ri, path, step):
        ctxs = self.ctx_path(ri, list(path) + [step])
        return HN.spell(ctxs[-2], ctxs[-1], step[0], step[1], step[3])

    def name_of(self, ri, path, step):
        return self.ctx_path(ri, list(path) + [step])[-1].name

    def make_value(self, v, op):
        from hl7apy import core
        from hl7apy.factories import datatype_factory
        if 'text' in v:
            return v['text']
        if 'copy' in v:
            sri, spath, sstep = v['copy']
            P = self.nav(sri, spath)
            return getattr(P, self.attr_of(sri, spath, sstep))
        if 'inst' in v:
            i = v['inst']
            cls = getattr(core, i['cls'])
            kw = {'version': i.get('version') or self.meta[op.get('root', 0)]['version'],
                  'validation_level': i.get('level') or self.level}
            e = cls(i['name'], **kw)
            if i.get('text') is not None:
                e.value = i['text']
            return e
        if 'bdt' in v:
            dt, text = v['bdt']
            return datatype_factory(dt, text, self.meta[op.get('root', 0)]['version'], self.level)
        if 'elem' in v:
            sri, spath = v['elem']
            e = self.nav(sri, spath)
            if e.__class__.__name__ == 'ElementProxy':
                raise NavError('no element at that path')
            return e
        if 'obj' in v:
            return {'int': 5, 'none_list': [None], 'dict': {}}[v['obj']]
        raise ValueError(v)

    # ---- executing one operation on the real elements ----
    def apply(self, op):
        k = op['k']
        ri = op.get('root', 0)
        if k == 'mkroot':
            self.make_root(op['spec'])
            return None
        if k == 'set':
            P = self.nav(ri, op['p'], op.get('px', False))
            step = op['c']
            attr = op.get('attr') or self.attr_of(ri, op['p'], step)
            val = self.make_value(op['v'], op)
            via = op.get('via', 'attr')
            if via == 'attr':
                setattr(P, attr, val)
            elif via == 'item':
                getattr(P, attr)[step[2]] = val
            elif via == 'childitem':
                P.children[op['ci']] = val
            return None
        if k == 'add':
            P = self.nav(ri, op['p'])
            step = op['c']
            name = self.name_of(ri, op['p'], step) if op.get('name') is None else op['name']
            via = op.get('via', 'factory')
            if via == 'factory':
                c = getattr(P, HN.factory_method(step[0]))(name)
                if op.get('text') is not None:
                    c.value = op['text']
            else:
                from hl7apy import core
                cls = {'seg': core.Segment, 'grp': core.Group, 'fld': core.Field, 'cmp': core.Component,
                       'sub': core.SubComponent}[op.get('cls') or step[0]]
                kw = {'version': op.get('version') or self.meta[ri]['version'],
                      'validation_level': op.get('level') or self.level}
                if op.get('datatype'):
                    kw['datatype'] = op['datatype']
                if P.__class__.__name__ == 'ElementProxy':
                    raise NavError('no parent at that path')
                if via == 'parent_kw':
                    kw['parent'] = P                 # attached by the constructor itself
                    c = cls(name, **kw)
                    return None
                c = cls(name, **kw)
                if op.get('text') is not None:
                    c.value = op['text']
                if via == 'parent_attr':
                    c.parent = P
                else:
                    P.add(c)
            return None
        if k == 'add_unknown':
            # an element without a name (unknown element), TOLERANT only
            from hl7apy import core
            P = self.nav(ri, op['p'])
            if P.__class__.__name__ == 'ElementProxy':
                raise NavError('no parent at that path')
            kw = {'datatype': op['datatype']} if op.get('datatype') else {}
            f = core.Field(version=self.meta[ri]['version'], validation_level=self.level, **kw)
            f.value = op['text']
            P.add(f)
            self.unknown = getattr(self, 'unknown', [])
            self.unknown.append(f)
            return None
        if k == 'selfassign':
            # re-assign a segment from its own ER7 text: nothing observable may change
            P = self.nav(ri, op['p'])
            step = op['c']
            attr = self.attr_of(ri, op['p'], step)
            proxy = getattr(P, attr)
            if proxy is None or len(proxy) <= step[2]:
                raise NavError('no such repetition')
            root = self.roots[ri]

            def obs():
                r = root.validate(return_errors=True)
                return [root.to_er7(), sorted(canon_text(str(x)) for x in r.errors), sorted(canon_text(str(x)) for x in r.warnings)]
            target = proxy[step[2]]

            def has_empty(e, depth=0):
                for c in e.children.list:
                    if c.to_er7() == '' or (depth < 3 and c.classname != 'SubComponent' and has_empty(c, depth + 1)):
                        return True
                return False
            fl_ = T.seg_fields(self.meta[ri]['version'], target.name) if not self.meta[ri].get('profile') else None
            if fl_:
                for c_ in target.children.list:
                    try:
                        i_ = int(c_.name.rsplit('_', 1)[1])
                    except Exception:
                        raise NavError('segment holds an unnamed child')
                    if 1 <= i_ <= len(fl_) and fl_[i_ - 1][1] is not None and c_.datatype != fl_[i_ - 1][1][2]:
                        # a datatype override does not survive a round trip through text either
                        raise NavError('segment holds a field with an overridden datatype')
            if has_empty(target):
                # present-but-empty children do not survive a round trip through text (and the statement
                # does not say they should): the metamorphic check needs a segment without them
                raise NavError('segment holds present-but-empty children')
            b = obs()
            text = target.to_er7()
            proxy[step[2]] = text
            a = obs()
            if a != b:
                what = 'encoding' if a[0] != b[0] else 'validation report'
                self.w.violate('C04.reassign', 're-assigning a segment from its own text changes the %s' % what,
                               '%s %s: before=%r after=%r' % (self.tag, attr, _short(b[1:], 300), _short(a[1:], 300)),
                               len(self.w.ops_done) - 1)
            else:
                self.w.probe('c04_selfassign_checked')
                if self.meta[ri].get('profile'):
                    self.w.probe('c04_selfassign_profile')
            return None
        if k == 'detach':
            e = self.nav(ri, op['p'])
            if e.__class__.__name__ == 'ElementProxy':
                raise NavError('no element at that path')
            e.parent = None
            return None
        if k == 'hold':
            cur = self.roots[ri]
            ctxs = self.ctx_path(ri, op['p'])
            for i, (t, key, r, sp) in enumerate(op['p']):
                attr = HN.spell(ctxs[i], ctxs[i + 1], t, key, sp)
                cur = getattr(cur, attr)          # proxies all the way: nothing is indexed
                if cur is None:
                    raise NavError('no child %s' % attr)
            self.held[op['reg']] = cur
            return None
        if k == 'grab':
            e = self.nav(ri, op['p'])
            if e.__class__.__name__ == 'ElementProxy':
                raise NavError('no element at that path')
            self.held[op['reg']] = e
            return None
        if k == 'attach_held':
            h = self.held.get(op['reg'])
            P = self.nav(ri, op['p'])
            if h is None or h.__class__.__name__ == 'ElementProxy' or P.__class__.__name__ == 'ElementProxy':
                raise NavError('nothing to attach')
            if op.get('via') == 'parent_attr':
                h.parent = P
            else:
                P.add(h)
            return None
        if k == 'held_set':
            h = self.held.get(op['reg'])
            if h is None:
                raise NavError('nothing held in register %r' % op['reg'])
            hp = op['hp']
            attr = self.attr_of(ri, hp, op['c'])
            setattr(h, attr, op['text'])
            return None
        if k == 'held_value':
            h = self.held.get(op['reg'])
            if h is None:
                raise NavError('nothing held in register %r' % op['reg'])
            h.value = op['text']
            return None
        if k == 'del':
            P = self.nav(ri, op['p'], op.get('px', False))
            via = op.get('via', 'attr')
            if via in ('attr', 'item'):
                step = op['c']
                attr = self.attr_of(ri, op['p'], step)
                if via == 'attr':
                    delattr(P, attr)
                else:
                    del getattr(P, attr)[step[2]]
            elif via == 'childitem':
                del P.children[op['ci']]
            elif via == 'pop':
                P.children.pop(op['ci'])
            elif via == 'remove':
                P.children.remove(P.children[op['ci']])
            return None
        if k == 'value':
            P = self.nav(ri, op['p'], op.get('px', False))
            if op.get('bdt'):
                from hl7apy.factories import datatype_factory
                P.value = datatype_factory(op['bdt'][0], op['bdt'][1], self.meta[ri]['version'], self.level)
            elif op.get('obj'):
                P.value = {'int': 5, 'list': [1], 'dict': {}}[op['obj']]
            else:
                P.value = op['text']
            return None
        if k == 'reattach':
            P = self.nav(ri, op['p'])
            sri, spath = op['src']
            child = self.nav(sri, spath)
            if not hasattr(child, 'children') or child.__class__.__name__ == 'ElementProxy':
                raise NavError('nothing to re-attach at that path')
            if P.__class__.__name__ == 'ElementProxy':
                raise NavError('no parent at that path')
            P.add(child)
            return None
        if k == 'datatype':
            P = self.nav(ri, op['p'])
            P.datatype = op['dt']
            return None
        if k == 'read':
            return self.read(op)
        if k == 'validate':
            return self.w.do_validate(self, op)
        raise ValueError('unknown op %r' % k)

    def read(self, op):
        ri = op.get('root', 0)
        what = op['what']
        out = []
        reps = op.get('times', 1)
        for _ in range(reps):
            if what == 'chain':
                cur = self.roots[ri]
                ctxs = self.ctx_path(ri, op['p'])
                for i, (t, key, r, sp) in enumerate(op['p']):
                    attr = HN.spell(ctxs[i], ctxs[i + 1], t, key, sp)
                    cur = getattr(cur, attr)
                    if cur is None:
                        break
                    if op.get('index') and len(cur) > r:
                        cur = cur[r]
                if cur is not None:
                    tail = op.get('tail', 'repr')
                    if tail == 'repr':
                        out.append(canon_text(repr(cur)))
                    elif tail == 'len':
                        out.append(len(cur))
                    elif tail == 'iter':
                        out.append(len(list(cur)))
                    elif tail == 'value':
                        v = cur.value
                        out.append(v if isinstance(v, str) else canon_text(repr(v)))
                    elif tail == 'er7':
                        out.append(cur.to_er7())
                    elif tail == 'in':
                        out.append(all(c in cur for c in list(cur)))
                    elif tail == 'children':
                        out.append(len(cur.children))
            else:
                e = self.nav(ri, op.get('p', []))
                if what == 'er7':
                    out.append(e.to_er7())
                elif what == 'er7_trailing':
                    out.append(e.to_er7(trailing_children=True))
                elif what == 'validate':
                    try:
                        r = e.validate(return_errors=True)
                        out.append([bool(r.is_valid), len(r.errors), len(r.warnings)])
                    except Exception as ex:      # noqa
                        out.append('EXC ' + canon_exc(ex))
                elif what == 'len':
                    out.append(len(e.children))
                elif what == 'iter':
                    out.append([c.name for c in e.children])
                elif what == 'repr':
                    out.append(canon_text(repr(e)) + canon_text(repr(e.children)))
                elif what == 'index':
                    out.append([canon_text(repr(e.children[i])) for i in range(len(e.children))])
                elif what == 'contains':
                    out.append(all(c in e.children for c in list(e.children)))
        return out

    # ---- observations ----
    def er7(self, ri, trailing=False):
        e = self.roots[ri]
        try:
            return e.to_er7(trailing_children=True) if trailing else e.to_er7()
        except Exception as ex:      # noqa
            return 'EXC ' + canon_exc(ex)

    def listing(self, e, depth=0):
        # (class, name, identity, identity of the parent it reports): a child that is still listed but
        # no longer points at its parent is "half-attached"
        out = [(e.classname, e.name, id(e), id(e.parent) if e.parent is not None else 0)]
        if depth < 8:
            for c in e.children.list:
                out.append(self.listing(c, depth + 1))
        return out

    def ids(self, e, acc=None, depth=0):
        acc = acc if acc is not None else {}
        acc[id(e)] = e
        if depth < 8:
            for c in e.children.list:
                self.ids(c, acc, depth + 1)
        return acc

    def snapshot(self, with_validate=False):
        snap = []
        for ri, e in enumerate(self.roots):
            s = [self.er7(ri), self.er7(ri, True), self.listing(e)]
            if with_validate:
                try:
                    r = e.validate(return_errors=True)
                    s.append([bool(r.is_valid), [canon_text(str(x)) for x in r.errors],
                              [canon_text(str(x)) for x in r.warnings]])
                except Exception as ex:      # noqa
                    s.append('EXC ' + canon_exc(ex))
            snap.append(s)
        return snap

    def all_ids(self):
        acc = {}
        for e in self.roots:
            self.ids(e, acc)
        return acc


# ------------------------------------------------------------------ C10: structural invariants
def check_tree(e, owners, version, level, out, path='root', depth=0):
    """Append (signature, detail) for every broken invariant below e."""
    L = e.children
    lst = L.list
    ids = [id(c) for c in lst]
    cname = e.classname
    if len(set(ids)) != len(ids):
        out.append(('%s lists the same child object twice' % cname, path))
    if len(L) != len(lst):
        out.append(('len() disagrees with the children list of a %s' % cname, path))
    try:
        it = list(iter(L))
        if [id(c) for c in it] != ids:
            out.append(('iteration disagrees with the children list of a %s' % cname, path))
        for i in range(len(lst)):
            if L[i] is not lst[i]:
                out.append(('positional [] disagrees with the children list of a %s' % cname, path))
                break
        for c in lst:
            if c not in L:
                out.append(('containment disagrees with the children list of a %s' % cname, path))
                break
    except Exception as ex:       # noqa
        out.append(('iterating the children of a %s raises %s' % (cname, type(ex).__name__), path))
    by_name = {}
    for c in lst:
        by_name.setdefault(c.name, []).append(id(c))
    for name, idl in by_name.items():
        idx = [id(c) for c in L.indexes.get(name, [])]
        if idx != idl:
            if sorted(idx) == sorted(idl):
                out.append(('by-name order of %s children differs from their list order' % cname, '%s.%s' % (path, name)))
            else:
                out.append(('by-name index of a %s disagrees with its children list' % cname, '%s.%s' % (path, name)))
    for name, il in L.indexes.items():
        for c in il:
            if id(c) not in ids:
                out.append(('by-name index of a %s holds a child that is not in its children list' % cname,
                            '%s.%s' % (path, name)))
                break
    for c in lst:
        if c.parent is not e:
            out.append(('a child listed by a %s reports another parent' % cname,
                        '%s -> %s (parent is %r)' % (path, c.name, c.parent)))
        o = owners.get(id(c))
        if o is not None and o is not e:
            out.append(('a %s is listed by two parents' % c.classname, '%s -> %s' % (path, c.name)))
        owners[id(c)] = e
        if c.version != version:
            out.append(('two HL7 versions in one tree', '%s -> %s: %s vs %s' % (path, c.name, c.version, version)))
        if c.validation_level != level:
            out.append(('two validation levels in one tree', '%s -> %s' % (path, c.name)))
    for name, tl in L.traversal_indexes.items():
        for t in tl:
            if id(t) in ids:
                out.append(('a traversal (shadow) child is also in the children list of a %s' % cname,
                            '%s.%s' % (path, name)))
            if t.parent is not None:
                out.append(('a traversal (shadow) child of a %s has a real parent' % cname, '%s.%s' % (path, name)))
            elif t.traversal_parent is not e:
                out.append(('a traversal (shadow) child of a %s points at another traversal parent' % cname,
                            '%s.%s' % (path, name)))
    # by-name lookup through the public API agrees with the list (only for named children)
    for name, idl in by_name.items():
        if name is None:
            continue
        try:
            proxy = getattr(e, name)
        except Exception as ex:       # noqa
            out.append(('lookup by name of a listed child of a %s raises %s' % (cname, type(ex).__name__),
                        '%s.%s' % (path, name)))
            continue
        if proxy is None:
            out.append(('lookup by name of a listed child of a %s finds nothing' % cname, '%s.%s' % (path, name)))
            continue
        try:
            got = [id(c) for c in proxy]
            if got != idl or len(proxy) != len(idl):
                out.append(('lookup by name disagrees with the children list of a %s' % cname, '%s.%s' % (path, name)))
        except Exception as ex:       # noqa
            out.append(('iterating a by-name lookup of a %s raises %s' % (cname, type(ex).__name__),
                        '%s.%s' % (path, name)))
    if depth < 8:
        for i, c in enumerate(lst):
            check_tree(c, owners, version, level, out, '%s/%s[%d]' % (path, c.name, i), depth + 1)


# ------------------------------------------------------------------ the world
# rejection causes the generator labels exactly and the statement of C05 names: "STRICT never lets a child
# exceed its maximum cardinality, a foreign or unknown child in ..." (measured: STRICT refuses every one of
# these operations on the unchanged tree, 0 acceptances in ~1000 of each)
STRICT_MUST_REFUSE = frozenset(['foreign_name', 'unknown_name', 'unknown_element', 'base_overflow', 'wrong_class'])


class HistoryWorld:
    def __init__(self, case, generator=None):
        self.case = case
        self.gen = generator
        self.violations = []
        self.probes = {}
        self.faults = {}
        self.log = []
        self.ops_done = []
        self.states = set()
        self.twin = bool(case.get('twin'))
        self.fs = simfs.SimFS()
        self.n_ops = 0

    def probe(self, name, n=1):
        self.probes[name] = self.probes.get(name, 0) + n

    def fault(self, name, n=1):
        self.faults[name] = self.faults.get(name, 0) + n

    def violate(self, monitor, signature, detail, step):
        # one report per (monitor, signature) and run: later steps keep being checked
        for v in self.violations:
            if v['monitor'] == monitor and v['signature'] == signature:
                return
        self.violations.append({'monitor': monitor, 'signature': signature, 'step': step, 'detail': detail})

    # ---- model side ----
    def model_apply(self, sut, op):
        """Apply an accepted op to the model.  Returns (created_nodes, removed_nodes) or None if the
        model cannot follow (then C09/C11-write checks stop for that root)."""
        k = op['k']
        ri = op.get('root', 0)
        root = sut.models[ri]
        if root is None:
            return None
        ec = sut.meta[ri]['ec']
        if op.get('bad') and op.get('bad') not in ('cardinality', 'datatype_override', 'delete_required', 'elem_assign'):
            return 'lost'
        if op.get('bad') == 'datatype_override':
            # followed only for complex -> complex overrides on a field of a known segment (C04's defect
            # prediction); a leaf field given a complex datatype keeps its leaf reference in the library
            try:
                ctx = sut.ctx_path(ri, list(op.get('p', [])) + ([op['c']] if 'c' in op else []))[-1]
                ok = ctx.kind == 'fld' and ctx.ref is not None and not T.is_base(ctx.version, ctx.ref[2]) and \
                    op.get('datatype') and not T.is_base(ctx.version, op['datatype']) and ctx.ref[0] == 'sequence'
            except Exception:
                ok = False
            if not ok:
                return 'lost'
        before = {n.uid for n in root.all_nodes()}

        def done():
            after = {n.uid for n in root.all_nodes()}
            return (len(after - before), len(before - after))
        mpath = [(t, key, r) for t, key, r, sp in op.get('p', [])]
        if k == 'set':
            t, key, r, sp = op['c']
            via = op.get('via', 'attr')
            v = op['v']
            parent, _ = EM.ensure_path(root, mpath)
            if 'text' in v:
                new = EM.node_from_text(t, key, v['text'], ec)
                if t == 'seg' and new.key != key:
                    return 'lost'
            elif 'copy' in v:
                sri, spath, sstep = v['copy']
                sroot = sut.models[sri]
                if sroot is None:
                    return 'lost'
                sp_ = EM.resolve(sroot, [(a, b, c) for a, b, c, d in spath])
                src = EM.find_rep(sp_, sstep[0], sstep[1], 0) if sp_ is not None else None
                if src is None:
                    return 'lost'
                new = src.clone()
                if EM.has_empty(new):
                    # (C11.write counts elements: see EM.has_empty; what a blank repetition becomes in the
                    # copy is not modelled, so the counts of this element stay off for the rest of the run)
                    sut.count_unknown = True
                    sut.count_off = True
                new = EM.text_order(new)
                new.key = key
            elif 'inst' in v:
                i = v['inst']
                if i.get('text') is None:
                    new = EM.Node(t, key)
                else:      # a parent-less instance parses its value with the standard delimiters
                    new = EM.node_from_text(t, key, i['text'], corpus._ec(0))
            elif 'bdt' in v:
                # a base datatype object assigned to a field / component / subcomponent
                text = v['bdt'][1]
                new = EM.node_from_text(t, key, text, ec)
            elif 'elem' in v:
                # an element that is attached somewhere is assigned as is: it moves (one parent only)
                sri, spath = v['elem']
                sroot = sut.models[sri]
                if sroot is None or not spath:
                    return 'lost'
                sp_parent = EM.resolve(sroot, [(a, b, c) for a, b, c, d in spath[:-1]])
                st, skey, sr, _ = spath[-1]
                src = EM.find_rep(sp_parent, st, skey, sr) if sp_parent is not None else None
                if src is None or st != t:
                    return 'lost'
                rr = r if via == 'item' else 0
                dst = EM.find_rep(parent, t, key, rr)
                if dst is src:
                    return done()
                if dst is None and sp_parent is parent:
                    return done()      # already a child of that element: adding it again is a no-op
                sp_parent.kids = [k_ for k_ in sp_parent.kids if k_ is not src]
                src.key = key
                if dst is None:
                    parent.kids.append(src)
                else:
                    i = [id(k_) for k_ in parent.kids].index(id(dst))
                    parent.kids[i] = src
                return done()
            else:
                return 'lost'
            if via == 'childitem':
                ci = op['ci']
                if not (0 <= ci < len(parent.kids)):
                    return 'lost'
                if parent.kids[ci].kind != new.kind or parent.kids[ci].key != new.key:
                    return 'lost'      # (an op recorded against another child order: children[i] names the child)
                parent.kids[ci] = new
            else:
                rr = r if via == 'item' else 0
                EM.op_set(parent, t, key, rr, new)
            return done()
        if k == 'add':
            t, key, r, sp = op['c']
            parent, _ = EM.ensure_path(root, mpath)
            if op.get('text') is not None:
                new = EM.node_from_text(t, key, op['text'], corpus._ec(0) if op.get('via') in ('inst', 'parent_attr') else ec)
            else:
                new = EM.Node(t, key)
            if op.get('datatype'):
                new.tag = {'datatype': op['datatype']}
            EM.op_add(parent, new)
            return done()
        if k == 'del':
            parent = EM.resolve(root, mpath)
            if parent is None:
                return 'lost'
            via = op.get('via', 'attr')
            if via in ('attr', 'item'):
                t, key, r, sp = op['c']
                EM.op_del(parent, t, key, r if via == 'item' else 0)
            else:
                EM.op_del_at(parent, op['ci'])
            return done()
        if k == 'value':
            node, _ = EM.ensure_path(root, mpath)
            kind = node.kind
            if kind in ('msg', 'grp'):
                return 'lost'
            text = op['bdt'][1] if op.get('bdt') else op['text']
            new = EM.node_from_text(kind, node.key, text, ec)
            if kind == 'fld' and node.tag and node.tag.get('datatype'):
                # the field was built with an overridden datatype: components past the end of that
                # datatype have no name and no position in the library (they are kept in arrival
                # order), so the positional model does not speak about such a text
                st = T.datatype_struct(sut.meta[ri]['version'], node.tag['datatype'])
                if any(c.key > (len(st) if st else 1) for c in new.kids):
                    return 'lost'
            node.kids = new.kids
            return done()
        if k == 'detach':
            if not mpath:
                return 'lost'
            parent = EM.resolve(root, mpath[:-1])
            if parent is None:
                return 'lost'
            t, key, r = mpath[-1]
            EM.op_del(parent, t, key, r)
            return done()
        if k == 'grab':
            sut.held_nodes[op['reg']] = EM.resolve(root, mpath)
            return (0, 0)
        if k == 'held_value':
            # .value = text through a handle to a component read earlier along op['hp'] (nothing was
            # attached in between): the same as writing there now
            if not op.get('hp'):
                return 'lost'
            hpath = [(t_, k_, r_) for t_, k_, r_, s_ in op['hp']]
            node, _ = EM.ensure_path(root, hpath)
            if node.kind != 'cmp':
                return 'lost'
            node.kids = EM.node_from_text('cmp', node.key, op['text'], ec).kids
            return done()
        if k == 'held_set':
            # a write through a handle obtained earlier by reading the same path: same as writing there now
            hpath = [(t_, k_, r_) for t_, k_, r_, s_ in op['hp']]
            parent, _ = EM.ensure_path(root, hpath)
            t, key, r, sp = op['c']
            EM.op_set(parent, t, key, 0, EM.node_from_text(t, key, op['text'], ec))
            return done()
        if k == 'attach_held':
            node = sut.held_nodes.get(op['reg'])
            parent = EM.resolve(root, mpath)
            if node is None or parent is None:
                return 'lost'
            if any(k_ is node for k_ in parent.kids):
                return done()              # already a child: no-op
            # (an element has one parent: if it is still listed elsewhere it moves)
            for r_ in sut.models:
                if r_ is None or r_ is root:
                    continue
                for n_ in r_.all_nodes():
                    if any(k_ is node for k_ in n_.kids):
                        n_.kids = [k_ for k_ in n_.kids if k_ is not node]
            for n_ in root.all_nodes():
                if any(k_ is node for k_ in n_.kids):
                    n_.kids = [k_ for k_ in n_.kids if k_ is not node]
            parent.kids.append(node)
            return done()
        if k == 'add_unknown':
            return 'lost'
        if k in ('read', 'validate', 'mkroot', 'hold', 'selfassign'):
            return (0, 0)
        return 'lost'

    def model_order(self, sut, ri):
        """Encoding order of a group's children: insertion order under TOLERANT, structure order
        under STRICT (documented behaviour of Group._get_children)."""
        meta = sut.meta[ri]
        if sut.level != 1 or meta['kind'] not in ('msg', 'grp'):
            return None
        version = meta['version']

        def order(node):
            ref = None
            if node.kind == 'msg':
                ref = T.messages(version).get(node.key)
            elif node.kind == 'grp':
                ref = T.groups(version).get(node.key)
            if ref is None or not ref[1]:
                return node.kids
            names = [c[0] for c in T.children(ref)]
            pos = {n: i for i, n in enumerate(names)}
            return sorted(node.kids, key=lambda k: pos.get(k.key, len(names)))
        return order

    # ---- running ----
    def run(self):
        case = self.case
        init = case['init']
        levels = [1, 2] if self.twin else [init['level']]
        self.suts = [Sut(self, lv, 'STRICT' if lv == 1 else 'TOLERANT') for lv in levels]
        for s in self.suts:
            try:
                s.make_root(dict(init, level=s.level))
            except Exception as ex:       # noqa
                s.alive = False
                s.last_exc = ex
                self.log.append(('init-rejected', s.tag, canon_exc(ex)))
        self.after_init()
        if not any(s.alive for s in self.suts):
            return self
        ops = case.get('ops')
        step = 0
        max_ops = case.get('gen', {}).get('n_ops', 6)
        while True:
            if ops is not None:
                if step >= len(ops):
                    break
                op = ops[step]
            else:
                if step >= max_ops and not (self.gen.pending and step < max_ops + 6):
                    break              # (a directed follow-up sequence is not cut in the middle)
                op = self.gen.next_op(self, step)
                if op is None:
                    break
            self.ops_done.append(op)
            self.step(op, step)
            step += 1
            if self.twin and not all(s.alive for s in self.suts):
                break
        self.n_ops = step
        return self

    def after_init(self):
        if self.twin and all(s.alive for s in self.suts):
            self.check_twins(-1, {'k': 'init'})
        elif self.twin:
            a, b = self.suts
            if a.alive and not b.alive:
                self.violate('C05.accept', 'input accepted under STRICT is rejected under TOLERANT (init)',
                             canon_exc(b.last_exc), -1)
        for s in self.suts:
            if s.alive:
                self.check_c10(s, -1, {'k': 'init'})
                self.check_c09(s, -1, {'k': 'init'}, 0)
                s.clean_start = None
                s.wrote_invalid = False
                if self.case.get('mix') == 'c04' and s.meta[0]['kind'] in ('msg', 'seg'):
                    try:
                        r = s.roots[0].validate(return_errors=True)
                        s.clean_start = not r.errors
                        self.probe('c04_clean_start' if s.clean_start else 'c04_unclean_start')
                    except Exception:
                        s.clean_start = None

    def step(self, op, step):
        results = [None] * len(self.suts)
        order = list(range(len(self.suts)))
        if self.twin and self.case.get('twin_order') == 'tolerant_first':
            order.reverse()          # process-level memory of one level must not leak into the other
        for si in order:
            s = self.suts[si]
            if not s.alive:
                continue
            read_like = op['k'] in ('read', 'validate')
            before = s.snapshot(with_validate=read_like and op.get('deep', True))
            ids_before = s.all_ids() if op['k'] in ('set', 'add', 'value', 'held_set', 'held_value') and op.get('via') not in ('parent_kw', 'parent_attr') \
                and 'elem' not in (op.get('v') or {}) else None
            self.fs.reset()
            twin_probe = self.fresh_twin_verdict(s, op) if op['k'] == 'datatype' and self.case.get('mix') == 'c04' else None
            try:
                ret = s.apply(op)
                exc = None
            except NavError as ex:
                ret, exc = None, ex
                self.probe('nav_error')
            except Exception as ex:       # noqa: the library's rejection is the injected fault
                ret, exc = None, ex
            s.last_exc = exc
            if twin_probe is not None:
                again = self.fresh_twin_verdict(s, op)
                if again != twin_probe:
                    self.violate('C04.deterministic',
                                 'changing the datatype of one element changes the verdict on a new, untouched element of the same name',
                                 '%s before=%r after=%r' % (s.tag, twin_probe, again), step)
            after = s.snapshot(with_validate=read_like and op.get('deep', True))
            results[si] = (exc, ret)
            okey = self.op_key(op)
            self.log.append((step, s.tag, okey, 'EXC ' + canon_exc(exc) if exc is not None else 'ok',
                             hashlib.sha1(repr([x[:2] for x in after]).encode()).hexdigest()[:10]))
            if exc is not None:
                if op.get('bad') and s.level == 1 and not isinstance(exc, NavError):
                    self.probe('strict_refuses:' + op['bad'])
                self.fault('rejected:' + (op.get('bad') or type(exc).__name__))
                self.probe('op_rejected')
                self.check_c12(s, step, op, before, after, exc)
                if ids_before is not None and not isinstance(exc, NavError):
                    created = [i for i in s.all_ids() if i not in ids_before]
                    if created:
                        self.violate('C11.write', 'a refused %s leaves elements it created on the way' % self.op_key(op),
                                     '%s created %d: %r' % (s.tag, len(created), [repr(s.all_ids()[i]) for i in created][:6]), step)
                for ri_, (b_, a_) in enumerate(zip(before, after)):
                    if b_ != a_:
                        s.models[ri_] = None     # a non-atomic rejection: the model cannot know what is left
            else:
                self.probe('op_accepted')
                if op.get('bad') and s.level == 1:
                    self.probe('strict_accepts:' + op['bad'])
                if op.get('bad') and op['bad'] not in ('cardinality', 'delete_absent', 'delete_required'):
                    s.wrote_invalid = True
                if read_like:
                    self.check_c11_read(s, step, op, before, after, ret)
                s.count_unknown = False
                delta = self.model_apply(s, op)
                if delta == 'lost' or delta is None:
                    s.models[op.get('root', 0)] = None
                    self.probe('model_lost')
                else:
                    self.check_c09(s, step, op, op.get('root', 0))
                    if ids_before is not None and not op.get('bad') and not getattr(s, 'count_unknown', False) \
                            and not getattr(s, 'count_off', False):
                        self.check_c11_write(s, step, op, ids_before, delta)
                    s.count_unknown = False
                    if self.case.get('mix') == 'c04' and not s.wrote_invalid and op.get('root', 0) == 0:
                        from models import validator_model as VM
                        if VM.holds_degraded_field(s.models[0], s.meta[0]['version']):
                            # TOLERANT gave a base-datatype field several components: the library turns
                            # that Field object into one of datatype None for good (parser.parse_field),
                            # which validate() names -- also after later writes made the text fit again.
                            # From here on only the predicted defects are checked, not conformance.
                            s.wrote_invalid = True
                            self.probe('c04_degraded_field')
            self.check_c10(s, step, op)
            m = s.models[0]
            if m is not None:
                self.states.add(hashlib.sha1((repr(EM.canon(m)) + okey).encode()).hexdigest()[:12])
        if self.twin:
            self.check_twin_step(step, op, results)

    def fresh_twin_verdict(self, sut, op):
        """What a *new* element of the same name, version and level as the target of a datatype op looks
        like to the library: its datatype, its validation report, its encoding after a value.  A datatype
        change is local to the element it is made on; the structure tables every other element is built
        from are shared by the whole process."""
        try:
            ri = op.get('root', 0)
            ctx = sut.ctx_path(ri, op['p'])[-1]
            from hl7apy import core
            cls = {'fld': core.Field, 'cmp': core.Component}.get(ctx.kind)
            if cls is None or not ctx.name:
                return None
            e = cls(ctx.name, version=sut.meta[ri]['version'], validation_level=sut.level)
            out = [e.datatype]
            try:
                r = e.validate(return_errors=True)
                out.append([sorted(canon_text(str(x)) for x in r.errors), sorted(canon_text(str(x)) for x in r.warnings)])
            except Exception as ex:       # noqa
                out.append('EXC ' + canon_exc(ex))
            return out
        except Exception as ex:       # noqa
            return 'EXC ' + canon_exc(ex)

    def op_key(self, op):
        k = op['k']
        if k in ('set', 'del', 'add'):
            extra = ''
            if k == 'set':
                v = op.get('v') or {}
                extra = ':bdt' if 'bdt' in v else (':elem' if 'elem' in v else '')
            return '%s/%s/%s%s' % (k, op.get('via', 'attr' if k != 'add' else 'factory'), op['c'][0] if 'c' in op else '-', extra)
        if k == 'read':
            return 'read/%s' % op['what']
        if k == 'validate':
            return 'validate/%s' % op.get('variant')
        return k

    # ---- monitors ----
    def check_c09(self, s, step, op, ri):
        m = s.models[ri]
        if m is None:
            return
        meta = s.meta[ri]
        text = s.er7(ri)
        if text.startswith('EXC '):
            self.violate('C09.encoding', 'to_er7() raises after an accepted %s' % self.op_key(op), text, step)
            return
        want = EM.canon(m, self.model_order(s, ri))
        got = EM.canon_text(meta['kind'], text, meta['ec'])
        if want == got:
            self.probe('c09_compared')
            # same children, but the text itself: an element none of whose children is blank does not end
            # in a separator (a child that was deleted leaves no slot behind)
            if meta['kind'] in ('seg', 'fld', 'cmp') and not text.startswith('MSH') and isinstance(m, EM.Node) \
                    and not EM.has_empty(m) and text and text[-1] in (meta['ec']['FIELD'], meta['ec']['COMPONENT'],
                                                                      meta['ec']['SUBCOMPONENT'], meta['ec']['REPETITION']):
                self.violate('C09.encoding', '%s: encoding ends in a separator although no child is blank' % self.op_key(op),
                             '%s model=%r er7=%r' % (s.tag, _short(want), text[:300]), step)
                s.models[ri] = None
            return
        sig = self.classify_c09(want, got, meta['kind'])
        self.violate('C09.encoding', '%s: %s' % (self.op_key(op), sig),
                     '%s model=%r sut=%r er7=%r' % (s.tag, _short(want), _short(got), text[:300]), step)
        s.models[ri] = None      # re-sync impossible: stop comparing this root, other monitors continue

    def classify_c09(self, want, got, kind):
        def multiset(c):
            if isinstance(c, list):
                return sorted(repr(x) for x in c)
            if isinstance(c, tuple) and len(c) == 2 and isinstance(c[1], dict):
                return sorted((k, sorted(repr(r) for r in v)) for k, v in c[1].items())
            return repr(c)
        try:
            if multiset(want) == multiset(got):
                if kind in ('msg', 'grp'):
                    return 'same segments, different order'
                return 'same repetitions, different order'
        except Exception:
            pass
        return 'encoding differs from the reference model'

    def check_c10(self, s, step, op):
        for ri, e in enumerate(s.roots):
            out = []
            owners = {}
            try:
                check_tree(e, owners, e.version, e.validation_level, out)
            except Exception as ex:       # noqa
                out.append(('walking the tree raises %s' % type(ex).__name__, canon_exc(ex)))
            for sig, detail in out:
                self.violate('C10.tree', sig, '%s root %d %s (first seen after %s %s)' % (
                    s.tag, ri, detail, 'rejected' if s.last_exc is not None and step >= 0 else 'accepted',
                    self.op_key(op)), step)
        # an element must not be listed by two parents across roots either
        owners = {}
        for ri, e in enumerate(s.roots):
            for i, el in s.ids(e).items():
                for c in el.children.list:
                    o = owners.get(id(c))
                    if o is not None and o is not el:
                        self.violate('C10.tree', 'a %s is listed by two parents' % c.classname,
                                     '%s %s under %r and %r (first seen after %s %s)' % (
                                         s.tag, c.name, o, el, 'rejected' if s.last_exc is not None and step >= 0 else 'accepted',
                                         self.op_key(op)), step)
                    owners[id(c)] = el
        self.probe('c10_checked')

    def check_c11_read(self, s, step, op, before, after, ret):
        if before != after:
            for ri, (b, a) in enumerate(zip(before, after)):
                if b != a:
                    what = 'encoding' if b[0] != a[0] or b[1] != a[1] else ('children' if b[2] != a[2] else 'validation result')
                    self.violate('C11.read', '%s changes the %s' % (self.op_key(op), what),
                                 '%s root %d before=%r after=%r' % (s.tag, ri, _short(b), _short(a)), step)
        self.probe('c11_read_checked')

    def check_c11_write(self, s, step, op, ids_before, delta):
        created, removed = delta
        ids_after = s.all_ids()
        new = [i for i in ids_after if i not in ids_before]
        gone = [i for i in ids_before if i not in ids_after]
        if len(new) != created:
            self.violate('C11.write', '%s creates %s elements than the chain written' % (
                self.op_key(op), 'more' if len(new) > created else 'fewer'),
                '%s created %d (%r) expected %d' % (s.tag, len(new), [repr(ids_after[i]) for i in new][:8], created), step)
        elif len(gone) != removed:
            self.violate('C11.write', '%s removes %s elements than it replaces' % (
                self.op_key(op), 'more' if len(gone) > removed else 'fewer'),
                '%s removed %d expected %d' % (s.tag, len(gone), removed), step)
        else:
            self.probe('c11_write_checked')
            if created >= 3 and op['k'] == 'set' and len(op.get('p', [])) >= 1:
                self.probe('c11_deep_chain_write')

    def check_c12(self, s, step, op, before, after, exc):
        cause = op.get('bad') or 'unplanned'
        if before == after:
            self.probe('c12_unchanged')
            return
        for ri, (b, a) in enumerate(zip(before, after)):
            if b == a:
                continue
            if b[0] != a[0] or b[1] != a[1]:
                what = 'encoding changed'
            else:
                what = 'children changed'
            site = _raise_site(exc)
            self.violate('C12.atomic', 'rejected %s (%s): %s' % (self.op_key(op), cause, what),
                         '%s root %d %s raised at %s; before=%r after=%r' % (
                             s.tag, ri, type(exc).__name__, site, _short(b[:2]), _short(a[:2])), step)
            break

    # ---- C05: twins ----
    def check_twin_step(self, step, op, results):
        a, b = self.suts            # STRICT, TOLERANT
        ra, rb = results
        if ra is None or rb is None:
            return
        if ra[0] is not None:
            a.alive = False          # STRICT rejected: nothing is demanded of TOLERANT-only behaviour
            self.probe('c05_strict_rejected')
            return
        if isinstance(ra[0], NavError) or isinstance(rb[0], NavError):
            return
        if op.get('bad') in STRICT_MUST_REFUSE:
            self.violate('C05.strict_refuses', 'STRICT lets a %s child in (%s)' % (
                {'base_overflow': 'surplus'}.get(op['bad'], 'foreign or unknown'), self.op_key(op)), op['bad'], step)
        if rb[0] is not None:
            self.violate('C05.accept', '%s accepted under STRICT is rejected under TOLERANT' % self.op_key(op),
                         canon_exc(rb[0]), step)
            b.alive = False
            return
        self.check_twins(step, op)

    def check_twins(self, step, op):
        a, b = self.suts
        for ri in range(min(len(a.roots), len(b.roots))):
            ta, tb = a.er7(ri), b.er7(ri)
            kind = a.meta[ri]['kind']
            ec = a.meta[ri]['ec']
            if ta != tb:
                ca, cb = EM.canon_text(kind, ta, ec), EM.canon_text(kind, tb, ec)
                if ca != cb:
                    sig = self.classify_twin(a, b, ri, ca, cb)
                    self.violate('C05.encoding', sig, 'STRICT=%r TOLERANT=%r' % (ta[:300], tb[:300]), step)
            # validation reports
            try:
                va = a.roots[ri].validate(return_errors=True)
                vb = b.roots[ri].validate(return_errors=True)
                na = [sorted(canon_text(str(x)) for x in va.errors), sorted(canon_text(str(x)) for x in va.warnings)]
                nb = [sorted(canon_text(str(x)) for x in vb.errors), sorted(canon_text(str(x)) for x in vb.warnings)]
                if na != nb and ta == tb:
                    self.violate('C05.report', 'validation report differs between STRICT and TOLERANT twins',
                                 'STRICT=%r TOLERANT=%r' % (_short(na), _short(nb)), step)
                bad = [e for e in na[0] if not e.startswith('Missing required child')]
                if bad:
                    kinds = sorted({e.split(' ')[0] + ' ' + e.split(' ')[1] if ' ' in e else e for e in bad})
                    self.violate('C05.strict_clean', 'STRICT-built element draws a validator error: %s' % kinds[0],
                                 repr(bad[:3]), step)
            except Exception as ex:       # noqa
                self.log.append(('twin-validate-exc', canon_exc(ex)))
            self.check_strict_leaves(a, ri, step)
        self.probe('c05_twins_compared')

    def classify_twin(self, a, b, ri, ca, cb):
        if isinstance(ca, list) and isinstance(cb, list):
            sa, sb = sorted(repr(x) for x in ca), sorted(repr(x) for x in cb)
            if sa == sb:
                # the one documented difference: STRICT groups encode in structure order.  The finding
                # only covers exactly that: STRICT == the TOLERANT twin's children stably sorted by
                # their position in the structure tables (children the structure lacks last)
                ec = a.meta[ri]['ec']
                want = [EM.canon_seg(EM.seg_from_text(t, ec)) for t in self.structure_sorted_lines(b.roots[ri], a.meta[ri]['version'])]
                if want == ca:
                    return 'same segments; STRICT encodes in structure order, TOLERANT in insertion order'
                return 'same segments, but STRICT order is neither insertion nor structure order'
            if set(sa) < set(sb):
                missing = [x for x in cb if repr(x) not in set(sa)]
                names = sorted({m[0] for m in missing})
                if all(n.startswith('Z') for n in names):
                    return 'STRICT encoding omits an accepted Z segment'
                return 'STRICT encoding omits an accepted segment'
        return 'STRICT and TOLERANT twins encode differently'

    def structure_sorted_lines(self, e, version):
        ref = None
        if e.classname == 'Message':
            ref = T.messages(version).get(e.name)
        elif e.classname == 'Group':
            ref = T.groups(version).get(e.name)
        names = [c[0] for c in T.children(ref)] if ref is not None and len(ref) > 1 and ref[1] else []
        pos = {n: i for i, n in enumerate(names)}
        kids = sorted(e.children.list, key=lambda c: pos.get(c.name, len(names)))
        out = []
        for c in kids:
            if c.classname == 'Segment':
                t = c.to_er7()
                if t.strip():
                    out.append(t)
            else:
                out.extend(self.structure_sorted_lines(c, version))
        return out

    def check_strict_leaves(self, a, ri, step):
        """Every leaf of the STRICT twin holds a value object of the class its datatype names,
        within that datatype's maximum length."""
        for i, e in a.ids(a.roots[ri]).items():
            if e.classname != 'SubComponent':
                continue
            v = e.value
            if v is None or isinstance(v, str):
                continue
            dt = e.datatype
            cn = type(v).__name__
            if dt and dt not in ('varies',) and cn != dt:
                self.violate('C05.strict_leaf', 'STRICT leaf of datatype %s holds a %s value' % (dt, cn),
                             '%r under %r' % (e, e.parent), step)
            ml = getattr(v, 'max_length', None)
            try:
                if ml is not None and ml >= 0 and len('{0}'.format(v.value)) > ml and getattr(v, 'value', None) is not None:
                    self.violate('C05.strict_leaf', 'STRICT leaf longer than the maximum of %s' % cn,
                                 '%r len %d > %d' % (e, len(str(v.value)), ml), step)
            except Exception:
                pass

    # ---- C04: validate variants ----
    def do_validate(self, s, op):
        from worlds import validate_ops
        return validate_ops.run(self, s, op)


def _raise_site(exc):
    tb = exc.__traceback__
    names = []
    while tb is not None:
        co = tb.tb_frame.f_code
        if 'hl7apy' in co.co_filename and '/verif/' not in co.co_filename:
            names.append(co.co_qualname)
        tb = tb.tb_next
    return names[-1] if names else '?'


def _short(x, n=400):
    s = repr(x)
    return s if len(s) <= n else s[:n] + '...'


def execute(case, generator=None):
    return HistoryWorld(case, generator).run()
