"""Debug helper: run single indices of a property in-process.  usage: dbg.py C16 132 [133 ...]"""
import sys, os, json, time
sys.path[:0] = [os.environ.get('VERIF_REPO', '/repo'), os.path.dirname(os.path.abspath(__file__))]
import importlib
from simkit import driver
prop = importlib.import_module('props.' + sys.argv[1].lower())
prop.setup()
base = int(os.environ.get('VERIF_SEED', '0'))
for a in sys.argv[2:]:
    i = int(a)
    seed = driver.run_seed(base, prop.ID, i)
    case = prop.generate(seed, i, 'quick')
    t0 = time.time()
    res = prop.execute(case)
    print('index', i, 'seed', seed, 'digest', res['digest'], 'wall %.3f' % (time.time() - t0), 'lines', res.get('lines'))
    for v in res['violations']:
        print('   V', v['monitor'], '|', v['signature'], '|', v['detail'][:300])
    if os.environ.get('DBG_SAMPLE'):
        print(json.dumps(res['sample'], indent=1, default=str)[:3000])
    if os.environ.get('DBG_CASE'):
        print(json.dumps(case, indent=1, default=str)[:6000])
