"""Entry point of ./check (see DESIGN.md §9)."""
import os
import sys
import importlib


def main():
    if len(sys.argv) < 2:
        print('usage: check <property id | selftest-determinism | selftest-mutants> [options]')
        return 2
    what = sys.argv[1]
    repo = os.environ.get('VERIF_REPO', '/repo')
    from simkit import simlock
    simlock.install()          # before the library is imported: locks it creates become baton-aware
    import hl7apy
    if not os.path.abspath(hl7apy.__file__).startswith(os.path.abspath(repo) + os.sep):
        print('HARNESS-ERROR hl7apy imported from %s, not from %s' % (hl7apy.__file__, repo))
        return 2
    if what.startswith('selftest'):
        mod = importlib.import_module('selftest.' + what.replace('-', '_'))
        return mod.main(sys.argv[2:])
    try:
        prop = importlib.import_module('props.' + what.lower())
    except ImportError as e:
        print('HARNESS-ERROR no check for %s (%s)' % (what, e))
        return 2
    from simkit import driver
    return driver.main(prop, sys.argv[2:])


if __name__ == '__main__':
    sys.exit(main())
